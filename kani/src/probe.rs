//! scratch probes (cost measurements)
use crate::c02::*;
use crate::nd::Nd;
use crate::spec::*;
use seq_io::fastq::{self, Record};

pub fn p1<N: Nd>(nd: &mut N) {
    const F: usize = 9;
    let file: [u8; F] = any_file::<N, F>(nd);
    let n = nd.usize_in(0, F);
    let p0 = nd.usize_in(0, n);
    let mut r = fq_reader_at::<F>(file, n, F + 1, p0, 1, 0, 2);
    let res = r.verif_search();
    let f = &file[..n];
    let g = fq_group(f, p0);
    match res {
        Ok(true) => assert!(g.lfs == 4),
        Ok(false) => assert!(g.lfs < 4),
        Err(e) => {
            assert!(g.lfs == 4);
            std::mem::forget(e)
        }
    }
    std::mem::forget(r);
}

pub fn p2<N: Nd>(nd: &mut N) {
    const F: usize = 9;
    let file: [u8; F] = any_file::<N, F>(nd);
    let n = F;
    let p0 = nd.usize_in(0, n);
    let mut r = fq_reader_at::<F>(file, n, F + 1, p0, 1, 0, 2);
    let res = r.verif_search();
    let f = &file[..n];
    let g = fq_group(f, p0);
    match res {
        Ok(true) => assert!(g.lfs == 4),
        Ok(false) => assert!(g.lfs < 4),
        Err(e) => {
            assert!(g.lfs == 4);
            std::mem::forget(e)
        }
    }
    std::mem::forget(r);
}
pub fn p3<N: Nd>(nd: &mut N) {
    const F: usize = 9;
    let file: [u8; F] = any_file::<N, F>(nd);
    let n = F;
    let p0 = 0;
    let mut r = fq_reader_at::<F>(file, n, F + 1, p0, 1, 0, 2);
    let res = r.verif_search();
    let f = &file[..n];
    let g = fq_group(f, p0);
    match res {
        Ok(true) => assert!(g.lfs == 4),
        Ok(false) => assert!(g.lfs < 4),
        Err(e) => {
            assert!(g.lfs == 4);
            std::mem::forget(e)
        }
    }
    std::mem::forget(r);
}

pub fn p4<N: Nd>(nd: &mut N) {
    const F: usize = 9;
    let file: [u8; F] = any_file::<N, F>(nd);
    let n = nd.usize_in(0, F);
    let p0 = nd.usize_in(0, n);
    let mut r = fq_reader_at::<F>(file, n, F + 1, p0, 1, 0, 2);
    let res = r.next();
    let f = &file[..n];
    let v = fq_verdict(f, p0);
    match res {
        None => assert!(v.end),
        Some(Ok(_)) => assert!(v.record),
        Some(Err(e)) => {
            std::mem::forget(e)
        }
    }
    std::mem::forget(r);
}

harnesses! {
    /// @meta props=X tier=thorough unwindset="resume_incomplete_search:2;seq_io::fill_buf:3" unwind=12
    #[kani::stub(std::string::String::from_utf8_lossy, crate::src::stub_lossy_empty)]
    probe_p4 => p4;
    /// @meta props=X tier=thorough unwind=12
    #[kani::stub(std::string::String::from_utf8_lossy, crate::src::stub_lossy_empty)]
    probe_p2 => p2;
    /// @meta props=X tier=thorough unwind=12
    #[kani::stub(std::string::String::from_utf8_lossy, crate::src::stub_lossy_empty)]
    probe_p3 => p3;
    /// @meta props=X tier=thorough unwind=12
    #[kani::stub(std::string::String::from_utf8_lossy, crate::src::stub_lossy_empty)]
    probe_p1 => p1;
}

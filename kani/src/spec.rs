//! Reference semantics of the two formats, written as short loops over a byte slice so that
//! they run under Kani (symbolic file) and natively (replay, pubcheck).  Independent of the
//! implementation: no offsets of the reader are consulted, only the file bytes.

pub const LF: u8 = b'\n';
pub const CR: u8 = b'\r';

/// index of the next LF at or after `i`, or `f.len()`
#[inline]
pub fn find_lf(f: &[u8], i: usize) -> usize {
    let mut j = i;
    while j < f.len() && f[j] != LF {
        j += 1;
    }
    j
}

/// end (exclusive) of `f[a..b]` with one trailing CR removed
#[inline]
pub fn trim_cr_end(f: &[u8], a: usize, b: usize) -> usize {
    if b > a && f[b - 1] == CR {
        b - 1
    } else {
        b
    }
}

/// 1-based line number of byte offset `i`
#[inline]
pub fn line_of(f: &[u8], i: usize) -> u64 {
    let mut l = 1u64;
    let mut j = 0;
    while j < i && j < f.len() {
        if f[j] == LF {
            l += 1;
        }
        j += 1;
    }
    l
}

#[inline]
pub fn count_lf(f: &[u8], a: usize, b: usize) -> usize {
    let mut c = 0;
    let mut j = a;
    while j < b {
        if f[j] == LF {
            c += 1;
        }
        j += 1;
    }
    c
}

// ------------------------------------------------------------------------------------------
// FASTA
// ------------------------------------------------------------------------------------------

#[derive(Clone, Copy, PartialEq, Eq, Debug)]
pub enum FaFirst {
    /// only blank lines (or nothing)
    Empty,
    /// first non-blank line starts with '>' at byte `pos`, 1-based line `line`
    Header { pos: usize, line: u64 },
    /// first non-blank line starts with another byte
    Invalid { line: u64, found: u8 },
}

/// first non-blank line of the file (a line is blank iff it is empty or a lone CR)
pub fn fa_first(f: &[u8]) -> FaFirst {
    let n = f.len();
    let mut i = 0;
    let mut line = 1u64;
    while i < n {
        let e = find_lf(f, i);
        let blank = e == i || (e == i + 1 && f[i] == CR);
        if !blank {
            return if f[i] == b'>' {
                FaFirst::Header { pos: i, line }
            } else {
                FaFirst::Invalid { line, found: f[i] }
            };
        }
        if e == n {
            return FaFirst::Empty;
        }
        i = e + 1;
        line += 1;
    }
    FaFirst::Empty
}

/// start of the record following the one whose '>' is at `h`: the first `j > h` with
/// `f[j-1] == LF && f[j] == '>'`, or `f.len()`
pub fn fa_next_header(f: &[u8], h: usize) -> usize {
    let n = f.len();
    let mut j = h + 1;
    while j < n {
        if f[j] == b'>' && f[j - 1] == LF {
            return j;
        }
        j += 1;
    }
    n
}

/// Iterator over the lines of the record region `f[h..end]` (header line first, then the
/// sequence lines), yielding the content range of each line with one trailing CR removed.
/// The empty remainder after a final LF is not a line.
pub struct FaLines<'a> {
    f: &'a [u8],
    i: usize,
    end: usize,
    first: bool,
}

impl<'a> FaLines<'a> {
    pub fn new(f: &'a [u8], h: usize, end: usize) -> Self {
        FaLines {
            f,
            i: h,
            end,
            first: true,
        }
    }
    pub fn next(&mut self) -> Option<(usize, usize)> {
        if self.i >= self.end && !self.first {
            return None;
        }
        if self.i > self.end {
            return None;
        }
        let mut e = self.i;
        while e < self.end && self.f[e] != LF {
            e += 1;
        }
        let a = if self.first { self.i + 1 } else { self.i };
        self.first = false;
        let a = if a > e { e } else { a };
        let b = trim_cr_end(self.f, a, e);
        self.i = e + 1;
        Some((a, b))
    }
}

/// number of sequence lines of the record `f[h..end]`
pub fn fa_num_seq_lines(f: &[u8], h: usize, end: usize) -> usize {
    let mut it = FaLines::new(f, h, end);
    let mut c = 0;
    it.next();
    while it.next().is_some() {
        c += 1;
    }
    c
}

// ------------------------------------------------------------------------------------------
// FASTQ
// ------------------------------------------------------------------------------------------

/// what the reference says about the group of lines starting at line start `p`
#[derive(Clone, Copy, PartialEq, Eq, Debug)]
pub struct FqGroup {
    /// number of LFs in f[p..] that belong to this group (0..=4)
    pub lfs: usize,
    /// line starts (valid for index < lfs+1): head, seq, sep, qual
    pub starts: [usize; 4],
    /// position of the LF ending each line, or n for the unterminated one
    pub ends: [usize; 4],
    /// start of the next group (one past the 4th LF) or n
    pub next: usize,
    /// the rest of the file from p consists of blank lines only
    pub all_blank: bool,
}

/// single pass over the file from `p`
pub fn fq_group(f: &[u8], p: usize) -> FqGroup {
    let n = f.len();
    let mut g = FqGroup {
        lfs: 0,
        starts: [n; 4],
        ends: [n; 4],
        next: n,
        all_blank: true,
    };
    if p <= n {
        g.starts[0] = p;
    }
    let mut cur_len = 0usize; // length of the current line so far
    let mut cur_is_cr = false; // the current line is exactly "\r"
    let mut i = p;
    while i < n {
        let c = f[i];
        if c == LF {
            if !(cur_len == 0 || (cur_len == 1 && cur_is_cr)) {
                g.all_blank = false;
            }
            if g.lfs < 4 {
                g.ends[g.lfs] = i;
                if g.lfs < 3 {
                    g.starts[g.lfs + 1] = i + 1;
                } else {
                    g.next = i + 1;
                }
                g.lfs += 1;
            }
            cur_len = 0;
            cur_is_cr = false;
        } else {
            cur_is_cr = cur_len == 0 && c == CR;
            cur_len += 1;
        }
        i += 1;
    }
    if !(cur_len == 0 || (cur_len == 1 && cur_is_cr)) {
        g.all_blank = false;
    }
    g
}

#[derive(Clone, Copy, PartialEq, Eq, Debug)]
pub enum FqKind {
    /// end of input (nothing or only an admissible blank tail)
    End,
    Record,
    InvalidStart,
    InvalidSep,
    UnequalLengths,
    UnexpectedEnd,
}

/// Set of admissible outcomes for the group at `p` (see DESIGN.md §6): where the statement
/// leaves precedence or the reading of the input open, every admissible outcome is accepted.
#[derive(Clone, Copy, Debug)]
pub struct FqVerdict {
    pub end: bool,
    pub record: bool,
    pub invalid_start: bool,
    pub invalid_sep: bool,
    pub unequal: bool,
    pub unexpected_end: bool,
}

impl FqVerdict {
    pub fn admits(&self, k: FqKind) -> bool {
        match k {
            FqKind::End => self.end,
            FqKind::Record => self.record,
            FqKind::InvalidStart => self.invalid_start,
            FqKind::InvalidSep => self.invalid_sep,
            FqKind::UnequalLengths => self.unequal,
            FqKind::UnexpectedEnd => self.unexpected_end,
        }
    }
}

/// content range (CR-trimmed) of line `k` of the group
pub fn fq_line(f: &[u8], g: &FqGroup, k: usize) -> (usize, usize) {
    let a = g.starts[k];
    let e = g.ends[k];
    (a, trim_cr_end(f, a, e))
}

/// header content (after the first byte, CR-trimmed); empty range if the line is empty
pub fn fq_head(f: &[u8], g: &FqGroup) -> (usize, usize) {
    let (a, b) = fq_line(f, g, 0);
    if a < g.ends[0] {
        let a1 = a + 1;
        (a1, if b < a1 { a1 } else { b })
    } else {
        (a, a)
    }
}

pub fn fq_verdict(f: &[u8], p: usize) -> FqVerdict {
    let g = fq_group(f, p);
    fq_verdict_g(f, p, &g)
}

/// verdict from an already computed group (no further pass over the file)
pub fn fq_verdict_g(f: &[u8], p: usize, g: &FqGroup) -> FqVerdict {
    let n = f.len();
    let mut v = FqVerdict {
        end: false,
        record: false,
        invalid_start: false,
        invalid_sep: false,
        unequal: false,
        unexpected_end: false,
    };
    if p >= n {
        v.end = true;
        return v;
    }
    // fewer than three line terminators left: blank tail or truncation
    if g.lfs < 3 {
        if g.all_blank {
            v.end = true;
        } else {
            v.unexpected_end = true;
        }
        return v;
    }
    // three or four terminated lines: a group of four lines exists (the fourth possibly
    // unterminated and possibly empty)
    let fourth_unterminated = g.lfs == 3;
    let fourth_empty_at_eof = fourth_unterminated && g.starts[3] == n;
    if g.all_blank && fourth_empty_at_eof {
        // exactly three blank lines after the last record: "up to three blank lines may follow"
        // vs. "a group whose first line does not start with '@'": both readings accepted
        v.end = true;
        v.invalid_start = true;
        v.unexpected_end = true;
        return v;
    }
    if fourth_empty_at_eof {
        // three terminated lines followed by end of input: either an empty unterminated quality
        // line or no fourth line at all
        v.unexpected_end = true;
    }
    let mut broken = false;
    if f[p] != b'@' {
        v.invalid_start = true;
        broken = true;
    }
    if f[g.starts[2]] != b'+' {
        v.invalid_sep = true;
        broken = true;
    }
    // length rule
    let (sa, sb) = fq_line(f, g, 1);
    let (qa, qb) = fq_line(f, g, 3);
    let seq_crlf = g.ends[1] > g.starts[1] && f[g.ends[1] - 1] == CR;
    let qual_crlf = g.ends[3] > g.starts[3] && f[g.ends[3] - 1] == CR;
    let claimed = if fourth_unterminated {
        !qual_crlf
    } else {
        seq_crlf == qual_crlf
    };
    if claimed {
        if sb - sa != qb - qa {
            v.unequal = true;
            broken = true;
        }
    } else {
        // mixed terminators inside the record: outside the documented format, both accepted
        v.unequal = true;
        if !broken {
            v.record = true;
        }
    }
    if !broken {
        v.record = true;
    }
    v
}

// ------------------------------------------------------------------------------------------
// FASTA, single pass (used by the kernels)
// ------------------------------------------------------------------------------------------

pub const FA_MAXL: usize = 6;

/// Line-end bookkeeping of the record whose '>' is at `h`, derived from the file only:
/// `ends` = positions of every LF of the record region up to and including the one that ends
/// the record, followed by `n` when the input ends without a final LF; `next` = offset of the
/// next header, or `n` if there is none; `complete` = a next header exists.
pub struct FaRec {
    pub ends: [usize; FA_MAXL],
    pub nends: usize,
    pub next: usize,
    pub complete: bool,
    /// more line ends than FA_MAXL (outside the bound of the harness)
    pub overflow: bool,
}

pub fn fa_record(f: &[u8], h: usize) -> FaRec {
    let n = f.len();
    let mut r = FaRec { ends: [0; FA_MAXL], nends: 0, next: n, complete: false, overflow: false };
    let mut done = false;
    let mut i = h;
    while i < n {
        if !done && f[i] == LF {
            if r.nends < FA_MAXL {
                r.ends[r.nends] = i;
                r.nends += 1;
            } else {
                r.overflow = true;
            }
            if i + 1 == n {
                done = true;
            } else if f[i + 1] == b'>' {
                r.next = i + 1;
                r.complete = true;
                done = true;
            }
        }
        i += 1;
    }
    if !done {
        // input ends without a line terminator: the end of the input closes the last line
        if r.nends < FA_MAXL {
            r.ends[r.nends] = n;
            r.nends += 1;
        } else {
            r.overflow = true;
        }
    }
    r
}

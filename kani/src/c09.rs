//! C09 — the buffer grows only as the policy directs and only when needed.
use crate::nd::Nd;
use seq_io::policy::{BufPolicy, DoubleUntil, DoubleUntilLimited, StdPolicy};

const LIM: usize = 1 << 62;

/// documented sizes: double below the threshold, add the threshold from it on
fn doc_size(current: usize, threshold: usize) -> usize {
    if current < threshold {
        current * 2
    } else {
        current + threshold
    }
}

pub fn policy_std<N: Nd>(nd: &mut N) {
    let c = nd.usize();
    nd.assume(c < LIM);
    nd.note_num("current", c as u64);
    let r = StdPolicy.grow_to(c);
    vassert!(r == Some(doc_size(c, 8 * 1024 * 1024)), "C09 StdPolicy size");
    // the contract the readers rely on: strictly larger for every non-zero capacity
    if c > 0 {
        vassert!(r.unwrap() > c, "C09 StdPolicy grows");
    }
    cover!(c < 8 * 1024 * 1024, "doubling branch");
    cover!(c >= 8 * 1024 * 1024, "linear branch");
}

pub fn policy_double_until<N: Nd>(nd: &mut N) {
    let c = nd.usize();
    let t = nd.usize();
    nd.assume(c < LIM && t < LIM);
    nd.note_num("current", c as u64);
    nd.note_num("threshold", t as u64);
    let r = DoubleUntil(t).grow_to(c);
    vassert!(r == Some(doc_size(c, t)), "C09 DoubleUntil size");
    cover!(c < t, "doubling branch");
    cover!(c >= t, "linear branch");
}

pub fn policy_double_until_limited<N: Nd>(nd: &mut N) {
    let c = nd.usize();
    let t = nd.usize();
    let l = nd.usize();
    nd.assume(c < LIM && t < LIM && l < LIM);
    nd.note_num("current", c as u64);
    nd.note_num("threshold", t as u64);
    nd.note_num("limit", l as u64);
    let r = DoubleUntilLimited::new(t, l).grow_to(c);
    let want = doc_size(c, t);
    if want <= l {
        vassert!(r == Some(want), "C09 DoubleUntilLimited size within limit");
    } else {
        vassert!(r.is_none(), "C09 DoubleUntilLimited refuses beyond limit");
    }
    cover!(r.is_none(), "refusal");
    cover!(r.is_some() && c < t, "doubling within limit");
    cover!(r.is_some() && c >= t, "linear within limit");
}

harnesses! {
    /// @meta props=C09 tier=quick kind=R timeout=300 mem=8 bounds="every current size < 2^62 (full 64-bit arithmetic)"
    c09_policy_std => policy_std;
    /// @meta props=C09 tier=quick kind=R timeout=300 mem=8 bounds="every current size and threshold < 2^62"
    c09_policy_double_until => policy_double_until;
    /// @meta props=C09 tier=quick kind=R timeout=300 mem=8 bounds="every current size, threshold and limit < 2^62"
    c09_policy_double_until_limited => policy_double_until_limited;
}

// ---------------------------------------------------------------------------------------
// growth through the readers (kernels with a recording policy, real buffer-redux)
// ---------------------------------------------------------------------------------------
use crate::fak::FaState;
use crate::fqk::{any_file, window, FqState};
use crate::src::Src;
use seq_io::{fasta, fastq};

pub struct RecPolicy {
    pub answer: Option<usize>,
    pub asked: usize,
    pub n: usize,
}

impl BufPolicy for RecPolicy {
    fn grow_to(&mut self, current: usize) -> Option<usize> {
        if self.n == 0 {
            self.asked = current;
        }
        self.n += 1;
        self.answer
    }
}

fn content_is(b: &[u8], file: &[u8], from: usize) -> bool {
    let mut ok = true;
    let mut i = 0;
    while i < file.len() {
        if i < b.len() && b[i] != file[from + i] {
            ok = false;
        }
        i += 1;
    }
    ok
}

/// K: `grow` asks the policy once with the current capacity and adopts its answer
pub fn k_grow<N: Nd, const F: usize, const CAP: usize, const FASTQ: bool>(nd: &mut N) {
    let file: [u8; F] = any_file::<N, F>(nd);
    let refuse = nd.bool();
    let m = nd.usize_in(CAP + 1, CAP + 4);
    nd.note_num("cap", CAP as u64);
    nd.note_num("policy_answer", if refuse { 0 } else { m as u64 });
    let pol = RecPolicy { answer: if refuse { None } else { Some(m) }, asked: 0, n: 0 };
    // completely filled buffer: the only situation in which the readers grow
    let br = window::<F>(Src::plain(file, F), CAP, 0);
    vassert!(br.buffer().len() == CAP, "C09 harness pre-state: full buffer");
    if FASTQ {
        let mut r = fastq::Reader::verif_from_parts(br, pol, fastq::VerifBufPos::new(0, 0, 0, 0, 0), 1, 1, 0, 1);
        let res = r.verif_grow();
        vassert!(r.policy().n == 1 && r.policy().asked == CAP, "C09 the policy is asked exactly once, with the current capacity");
        let cap2 = r.verif_buf_reader().capacity();
        match res {
            Ok(()) => {
                vassert!(!refuse, "C09 growth succeeds only if the policy permits it");
                vassert!(cap2 == m, "C09 the size returned by the policy is adopted");
            }
            Err(fastq::Error::BufferLimit) => {
                vassert!(refuse, "C09 a buffer-limit error only when the policy refuses");
                vassert!(cap2 == CAP, "C09 a refused growth leaves the capacity unchanged");
            }
            Err(e) => {
                vassert!(false, "C09 grow reports only the buffer limit");
                std::mem::forget(e);
            }
        }
        let b = r.verif_buf_reader().buffer();
        vassert!(b.len() == CAP && content_is(b, &file, 0), "C09 growing keeps the buffered bytes");
        std::mem::forget(r);
    } else {
        let mut r = fasta::Reader::verif_from_parts(br, pol, 0, Vec::with_capacity(4), 1, 0, 1, 2);
        let res = r.verif_grow();
        vassert!(r.policy().n == 1 && r.policy().asked == CAP, "C09 the policy is asked exactly once, with the current capacity");
        let cap2 = r.verif_buf_reader().capacity();
        match res {
            Ok(()) => {
                vassert!(!refuse, "C09 growth succeeds only if the policy permits it");
                vassert!(cap2 == m, "C09 the size returned by the policy is adopted");
            }
            Err(fasta::Error::BufferLimit) => {
                vassert!(refuse, "C09 a buffer-limit error only when the policy refuses");
                vassert!(cap2 == CAP, "C09 a refused growth leaves the capacity unchanged");
            }
            Err(e) => {
                vassert!(false, "C09 grow reports only the buffer limit");
                std::mem::forget(e);
            }
        }
        let b = r.verif_buf_reader().buffer();
        vassert!(b.len() == CAP && content_is(b, &file, 0), "C09 growing keeps the buffered bytes");
        std::mem::forget(r);
    }
    cover!(refuse, "policy refused");
    cover!(!refuse && m == CAP + 1, "slowly growing policy");
}

/// K: a policy installed in mid-stream takes over without disturbing any reader field
pub fn k_set_policy<N: Nd, const F: usize, const CAP: usize>(nd: &mut N) {
    let file: [u8; F] = any_file::<N, F>(nd);
    let off = nd.usize_in(0, F - CAP);
    let fq = FqState {
        pos0: nd.usize_in(0, CAP),
        pos1: nd.usize_in(0, CAP),
        seq: nd.usize_in(0, CAP),
        sep: nd.usize_in(0, CAP),
        qual: nd.usize_in(0, CAP),
        inc: nd.u8_in(0, 4),
        line: nd.u64(),
        byte: nd.u64(),
        state: nd.u8_in(0, 3),
    };
    let br = window::<F>(Src::plain(file, F), CAP, off);
    let r = crate::fqk::fq_reader(br, &fq);
    let r2 = r.set_policy(RecPolicy { answer: None, asked: 0, n: 0 });
    vassert!(r2.verif_buf_pos() == (fq.pos0, fq.pos1, fq.seq, fq.sep, fq.qual), "C09 set_policy keeps the record coordinates (fastq)");
    vassert!(r2.verif_incomplete_pos() == fq.inc && r2.verif_state() == fq.state, "C09 set_policy keeps the parser state (fastq)");
    vassert!(r2.verif_position() == (fq.line, fq.byte), "C09 set_policy keeps the file position (fastq)");
    vassert!(r2.policy().n == 0, "C09 set_policy does not consult the policy");
    let b = r2.verif_buf_reader().buffer();
    vassert!(b.len() == CAP && content_is(b, &file, off) && r2.verif_buf_reader().capacity() == CAP, "C09 set_policy keeps the buffer (fastq)");
    std::mem::forget(r2);
    // fasta
    let fa = FaState { start: nd.usize_in(0, CAP), search_pos: nd.usize_in(0, CAP), line: nd.u64(), byte: nd.u64(), state: nd.u8_in(0, 4) };
    let q0 = nd.usize_in(0, CAP);
    let mut v = Vec::with_capacity(4);
    v.push(q0);
    let br = window::<F>(Src::plain(file, F), CAP, off);
    let r = crate::fak::fa_reader(br, &fa, v);
    let r2 = r.set_policy(RecPolicy { answer: None, asked: 0, n: 0 });
    vassert!(r2.verif_start() == fa.start && r2.verif_search_pos() == fa.search_pos && r2.verif_state() == fa.state, "C09 set_policy keeps the parser state (fasta)");
    vassert!(r2.verif_seq_pos().len() == 1 && r2.verif_seq_pos()[0] == q0, "C09 set_policy keeps the line ends (fasta)");
    vassert!(r2.verif_position() == (fa.line, fa.byte), "C09 set_policy keeps the file position (fasta)");
    let b = r2.verif_buf_reader().buffer();
    vassert!(b.len() == CAP && content_is(b, &file, off) && r2.verif_buf_reader().capacity() == CAP, "C09 set_policy keeps the buffer (fasta)");
    cover!(fq.state == 2 && fa.state == 2, "mid-stream states");
    std::mem::forget(r2);
}

pub fn k_grow_fq<N: Nd>(nd: &mut N) {
    k_grow::<N, 6, 4, true>(nd)
}
pub fn k_grow_fa<N: Nd>(nd: &mut N) {
    k_grow::<N, 6, 4, false>(nd)
}
pub fn k_set_policy_f6_c4<N: Nd>(nd: &mut N) {
    k_set_policy::<N, 6, 4>(nd)
}

harnesses! {
    @reg registry2;
    /// @meta props=C09 tier=quick kind=K timeout=1500 mem=12 unwind=10 bounds="fastq::Reader::grow on a full buffer of capacity 4 (real buffer-redux) with a recording policy answering None or any size cap+1..=cap+4"
    c09_grow_fq => k_grow_fq;
    /// @meta props=C09 tier=quick kind=K timeout=1500 mem=12 unwind=10 bounds="fasta::Reader::grow on a full buffer of capacity 4 (real buffer-redux) with a recording policy answering None or any size cap+1..=cap+4"
    c09_grow_fa => k_grow_fa;
    /// @meta props=C09 tier=quick kind=K timeout=1500 mem=12 unwind=10 bounds="set_policy on both readers in every parser state with symbolic coordinates, window of capacity 4 at every offset of every 6-byte file"
    c09_set_policy => k_set_policy_f6_c4;
}

//! Source model: an `io::Read + Seek` over a (symbolic) file that delivers, per call, a
//! pre-drawn symbolic number of bytes (1..=min(room, remaining)), may be interrupted and may
//! fail at a symbolic call index with a symbolic error kind.  Contract kept: a read returns 0
//! only at end of input.
use crate::nd::Nd;
use std::io::{self, Read, Seek, SeekFrom};

/// number of read calls whose behaviour is symbolic; later calls deliver as much as fits
pub const K: usize = 6;

pub struct Src<const N: usize> {
    pub data: [u8; N],
    pub len: usize,
    pub pos: usize,
    pub calls: usize,
    /// chunk[j] = upper bound on the bytes delivered by call j (0 = as much as fits)
    pub chunk: [usize; K],
    pub intr: [bool; K],
    /// call index at which a hard error is returned (usize::MAX = never), and its kind
    pub fault_at: usize,
    pub fault_kind: u8,
    pub seek_fault: bool,
    pub reads_done: usize,
}

pub fn kind_of(code: u8) -> io::ErrorKind {
    match code {
        0 => io::ErrorKind::Other,
        1 => io::ErrorKind::UnexpectedEof,
        2 => io::ErrorKind::PermissionDenied,
        _ => io::ErrorKind::WouldBlock,
    }
}

impl<const N: usize> Src<N> {
    /// whole reads, no faults
    pub fn plain(data: [u8; N], len: usize) -> Self {
        Src {
            data,
            len,
            pos: 0,
            calls: 0,
            chunk: [0; K],
            intr: [false; K],
            fault_at: usize::MAX,
            fault_kind: 0,
            seek_fault: false,
            reads_done: 0,
        }
    }
    /// symbolic chunk sizes for the first K calls
    pub fn chunked<M: Nd>(nd: &mut M, data: [u8; N], len: usize) -> Self {
        let mut s = Self::plain(data, len);
        let mut j = 0;
        while j < K {
            s.chunk[j] = nd.usize_in(0, N);
            j += 1;
        }
        s
    }
    pub fn with_interrupts<M: Nd>(mut self, nd: &mut M) -> Self {
        let mut j = 0;
        while j < K {
            self.intr[j] = nd.bool();
            j += 1;
        }
        self
    }
    pub fn with_fault<M: Nd>(mut self, nd: &mut M) -> Self {
        self.fault_at = nd.usize_in(0, K - 1);
        self.fault_kind = nd.u8_in(0, 3);
        nd.note_num("fault_at_call", self.fault_at as u64);
        nd.note_num("fault_kind", self.fault_kind as u64);
        self
    }
}

impl<const N: usize> Read for Src<N> {
    fn read(&mut self, out: &mut [u8]) -> io::Result<usize> {
        let j = self.calls;
        self.calls += 1;
        if j == self.fault_at {
            return Err(io::Error::from(kind_of(self.fault_kind)));
        }
        if j < K && self.intr[j] {
            return Err(io::Error::from(io::ErrorKind::Interrupted));
        }
        let remaining = self.len - self.pos;
        let mut n = if out.len() < remaining { out.len() } else { remaining };
        if j < K && self.chunk[j] != 0 && self.chunk[j] < n {
            n = self.chunk[j];
        }
        let mut i = 0;
        while i < N {
            if i < n {
                out[i] = self.data[self.pos + i];
            }
            i += 1;
        }
        self.pos += n;
        self.reads_done += 1;
        Ok(n)
    }
}

impl<const N: usize> Seek for Src<N> {
    fn seek(&mut self, to: SeekFrom) -> io::Result<u64> {
        if self.seek_fault {
            return Err(io::Error::from(kind_of(self.fault_kind)));
        }
        match to {
            SeekFrom::Start(p) => {
                let p = p as usize;
                self.pos = if p > self.len { self.len } else { p };
                Ok(self.pos as u64)
            }
            _ => Err(io::Error::from(io::ErrorKind::Unsupported)),
        }
    }
}

/// stand-in for `String::from_utf8_lossy` (Kani stub): the id is not inspected
pub fn stub_lossy_empty(_v: &[u8]) -> std::borrow::Cow<'_, str> {
    std::borrow::Cow::Borrowed("")
}

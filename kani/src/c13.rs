//! C13 — all views of a record agree with each other (records from parts, both formats).
use crate::nd::Nd;
use crate::recs::*;
use crate::spec::{CR, LF};
use std::borrow::Cow;

fn same(a: &[u8], buf: &[u8], r: (usize, usize)) -> bool {
    if a.len() != r.1 - r.0 {
        return false;
    }
    let mut ok = true;
    let mut i = 0;
    while i < buf.len() {
        if i < a.len() && a[i] != buf[r.0 + i] {
            ok = false;
        }
        i += 1;
    }
    ok
}

fn eq(a: &[u8], b: &[u8]) -> bool {
    if a.len() != b.len() {
        return false;
    }
    let mut ok = true;
    let mut i = 0;
    while i < FB + 2 {
        if i < a.len() && a[i] != b[i] {
            ok = false;
        }
        i += 1;
    }
    ok
}

/// id / description split of a header against the bytes
fn check_id_desc(head: &[u8], id_bytes: &[u8], desc_bytes: Option<&[u8]>, both: (&[u8], Option<&[u8]>)) {
    // first space
    let mut sp = head.len();
    let mut i = 0;
    while i < FB + 2 {
        if i < head.len() && head[i] == b' ' && sp == head.len() {
            sp = i;
        }
        i += 1;
    }
    vassert!(eq(id_bytes, &head[..sp]), "C13 the id is the header up to the first space");
    if sp < head.len() {
        vassert!(desc_bytes.is_some() && eq(desc_bytes.unwrap(), &head[sp + 1..]), "C13 the description is the rest of the header after the first space");
    } else {
        vassert!(desc_bytes.is_none(), "C13 no description without a space");
    }
    vassert!(eq(both.0, id_bytes), "C13 id_desc_bytes agrees with id_bytes");
    vassert!(both.1.is_some() == desc_bytes.is_some(), "C13 id_desc_bytes agrees with desc_bytes");
    if let (Some(a), Some(b)) = (both.1, desc_bytes) {
        vassert!(eq(a, b), "C13 id_desc_bytes agrees with desc_bytes (content)");
    }
}

pub fn fa_views<N: Nd, const L: usize>(nd: &mut N) {
    use seq_io::fasta::Record;
    let parts = any_fa_record_l(nd, L);
    let bp = parts.bufpos();
    let rec = bp.record(parts.buffer());
    let nlines = L - 1;
    let buf = &parts.buf[..];
    vassert!(same(rec.head(), buf, parts.line(0)), "C13 head is the header line without '>' and terminator");
    vassert!(rec.num_seq_lines() == nlines, "C13 number of sequence lines");
    vassert!(rec.seq_lines().count() == nlines, "C13 forward count of the line iterator");
    vassert!(rec.seq_lines().rev().count() == nlines, "C13 backward count of the line iterator");
    {
        // the lines taken from the back are the same lines
        let mut it = rec.seq_lines();
        let mut k = nlines;
        let mut step = 0;
        while step < ML {
            if let Some(l) = it.next_back() {
                vassert!(k >= 1 && same(l, buf, parts.line(k)), "C13 lines taken from the back equal the lines taken from the front");
                k -= 1;
            }
            step += 1;
        }
    }
    // expected concatenation
    let mut cat = [0u8; FB];
    let mut cl = 0;
    let mut k = 1;
    while k < ML {
        if k <= nlines {
            let (a, b) = parts.line(k);
            let mut j = 0;
            while j < FB {
                if a + j < b {
                    cat[cl] = parts.buf[a + j];
                    cl += 1;
                }
                j += 1;
            }
        }
        k += 1;
    }
    let owned = rec.owned_seq();
    vassert!(eq(&owned, &cat[..cl]), "C13 owned_seq is the concatenation of the sequence lines");
    let full = rec.full_seq();
    vassert!(eq(&full, &cat[..cl]), "C13 full_seq is the concatenation of the sequence lines");
    vassert!(matches!(full, Cow::Borrowed(_)) == (nlines == 1), "C13 full_seq is borrowed exactly when there is a single line");
    let o = rec.to_owned_record();
    vassert!(eq(&o.seq, &cat[..cl]), "C13 the owned record has the same sequence");
    vassert!(same(&o.head, buf, parts.line(0)), "C13 the owned record has the same header");
    // raw sequence differs only by line terminators
    let raw = rec.seq();
    let mut ri = 0;
    let mut ok = true;
    let mut i = 0;
    while i < FB {
        if i < raw.len() {
            let c = raw[i];
            let is_term = c == LF || (c == CR && i + 1 < raw.len() && raw[i + 1] == LF);
            if !is_term {
                if ri >= cl || cat[ri] != c {
                    ok = false;
                }
                ri += 1;
            }
        }
        i += 1;
    }
    vassert!(ok && ri == cl, "C13 the raw sequence differs from the line concatenation only by line terminators");
    check_id_desc(rec.head(), rec.id_bytes(), rec.desc_bytes(), rec.id_desc_bytes());
    use seq_io::fasta::Record as R2;
    check_id_desc(R2::head(&o), o.id_bytes(), o.desc_bytes(), o.id_desc_bytes());
    cover!(L == 1 || cl >= 2, "sequence of at least two bytes (if there are lines)");
    std::mem::forget(owned);
    std::mem::forget(full);
    std::mem::forget(o);
    std::mem::forget(bp);
}

fn eq2(a: &[u8], b: &[u8]) -> bool {
    if a.len() != b.len() {
        return false;
    }
    (a.len() < 1 || a[0] == b[0]) && (a.len() < 2 || a[1] == b[1])
}

/// UTF-8 validity of a string of at most two bytes, written out (no call into core::str)
pub fn utf8_ok(b: &[u8]) -> bool {
    match b.len() {
        0 => true,
        1 => b[0] < 0x80,
        _ => (b[0] < 0x80 && b[1] < 0x80) || (b[0] >= 0xc2 && b[0] <= 0xdf && b[1] >= 0x80 && b[1] <= 0xbf),
    }
}

/// Stand-in for `core::str::from_utf8` (Kani stub): core's validation uses pointer-alignment
/// tricks that the model checker cannot digest (12 GB for a 2-byte string).  The stub decides
/// validity with `utf8_ok`; what the harnesses check is the accessors' wiring: WHICH bytes are
/// validated and that the result is handed on unchanged.  core::str::from_utf8 itself is trusted.
pub fn stub_from_utf8(v: &[u8]) -> Result<&str, std::str::Utf8Error> {
    if v.len() <= 2 && utf8_ok(v) {
        Ok(unsafe { std::str::from_utf8_unchecked(v) })
    } else {
        Err(unsafe { std::mem::zeroed() })
    }
}

/// Stand-in for core's internal `memchr` (used by `str::splitn(_, char)` through `CharSearcher`):
/// the word-at-a-time scan with `align_offset` is what exhausts the solver; same contract, byte loop.
pub fn stub_core_memchr(x: u8, text: &[u8]) -> Option<usize> {
    let mut i = 0;
    while i < text.len() {
        if text[i] == x {
            return Some(i);
        }
        i += 1;
    }
    None
}

/// text accessors: succeed exactly when the bytes are valid UTF-8 and return the same bytes
/// (WHICH: 0 id(), 1 desc(), 2 id_desc() - one real UTF-8 validation per harness)
macro_rules! text_harness {
    ($name:ident, $rec:expr, $tr:path, $which:expr) => {
        pub fn $name<N: Nd>(nd: &mut N) {
            use $tr;
            let h = [nd.u8(), nd.u8()];
            let hl = nd.usize_in(0, 2);
            nd.assume(h[0] != LF && h[1] != LF);
            nd.note("head", &h[..hl]);
            let o = $rec(h[..hl].to_vec());
            let idb = o.id_bytes();
            let db = o.desc_bytes();
            if $which == 0 {
                let id = o.id();
                vassert!(id.is_ok() == utf8_ok(idb), "C13 id() succeeds exactly when the id bytes are valid UTF-8");
                if let Ok(s) = id {
                    vassert!(eq2(s.as_bytes(), idb), "C13 id() returns the id bytes");
                }
                cover!(hl == 2 && id.is_err(), "opt: invalid UTF-8 id");
                cover!(hl == 2 && h[0] >= 0xc0 && id.is_ok(), "opt: multi-byte UTF-8 id");
            } else if $which == 1 {
                let d = o.desc();
                vassert!(d.is_some() == db.is_some(), "C13 desc() is present exactly when desc_bytes() is");
                if let (Some(r), Some(b)) = (d, db) {
                    vassert!(r.is_ok() == utf8_ok(b), "C13 desc() succeeds exactly when the description bytes are valid UTF-8");
                    if let Ok(s) = r {
                        vassert!(eq2(s.as_bytes(), b), "C13 desc() returns the description bytes");
                    }
                }
                cover!(hl == 2 && h[0] == b' ' && o.desc().map_or(false, |d| d.is_err()), "opt: invalid UTF-8 description");
            } else {
                let both = o.id_desc();
                vassert!(both.is_ok() == utf8_ok(&h[..hl]), "C13 id_desc() succeeds exactly when the header is valid UTF-8");
                if let Ok((i, dd)) = both {
                    vassert!(eq2(i.as_bytes(), idb), "C13 id_desc() returns the id bytes");
                    vassert!(dd.is_some() == db.is_some(), "C13 id_desc() description presence");
                    if let (Some(x), Some(y)) = (dd, db) {
                        vassert!(eq2(x.as_bytes(), y), "C13 id_desc() returns the description bytes");
                    }
                }
                cover!(hl == 2 && both.is_err(), "opt: invalid UTF-8 header");
            }
            cover!(hl == 2 && !utf8_ok(&h[..hl]), "a header that is not valid UTF-8");
            std::mem::forget(o);
        }
    };
}
text_harness!(fa_text_id, |h| seq_io::fasta::OwnedRecord { head: h, seq: Vec::new() }, seq_io::fasta::Record, 0);
text_harness!(fa_text_desc, |h| seq_io::fasta::OwnedRecord { head: h, seq: Vec::new() }, seq_io::fasta::Record, 1);
text_harness!(fa_text_both, |h| seq_io::fasta::OwnedRecord { head: h, seq: Vec::new() }, seq_io::fasta::Record, 2);
text_harness!(fq_text_id, |h| seq_io::fastq::OwnedRecord { head: h, seq: Vec::new(), qual: Vec::new() }, seq_io::fastq::Record, 0);
text_harness!(fq_text_desc, |h| seq_io::fastq::OwnedRecord { head: h, seq: Vec::new(), qual: Vec::new() }, seq_io::fastq::Record, 1);
text_harness!(fq_text_both, |h| seq_io::fastq::OwnedRecord { head: h, seq: Vec::new(), qual: Vec::new() }, seq_io::fastq::Record, 2);

fn seq2(a: u8, b: u8) -> bool {
    a >= 0xc2 && a <= 0xdf && b >= 0x80 && b <= 0xbf
}

/// UTF-8 validity of a string of at most three bytes, written out (validated exhaustively against
/// core::str::from_utf8 over all 2^24 + 2^16 + 2^8 + 1 strings by a one-off native program, DESIGN §14.3)
pub fn utf8_ok3(b: &[u8]) -> bool {
    if b.len() <= 2 {
        return utf8_ok(b);
    }
    let (x, y, z) = (b[0], b[1], b[2]);
    let cont = |c: u8| c >= 0x80 && c <= 0xbf;
    let s3 = cont(z)
        && ((x == 0xe0 && y >= 0xa0 && y <= 0xbf)
            || (((x >= 0xe1 && x <= 0xec) || x == 0xee || x == 0xef) && cont(y))
            || (x == 0xed && y >= 0x80 && y <= 0x9f));
    (x < 0x80 && ((y < 0x80 && z < 0x80) || seq2(y, z))) || (seq2(x, y) && z < 0x80) || s3
}

/// as `stub_from_utf8`, for strings of at most three bytes
pub fn stub_from_utf8_3(v: &[u8]) -> Result<&str, std::str::Utf8Error> {
    if v.len() <= 3 && utf8_ok3(v) {
        Ok(unsafe { std::str::from_utf8_unchecked(v) })
    } else {
        Err(unsafe { std::mem::zeroed() })
    }
}

fn eq3(a: &[u8], b: &[u8]) -> bool {
    a.len() == b.len() && (a.len() < 1 || a[0] == b[0]) && (a.len() < 2 || a[1] == b[1]) && (a.len() < 3 || a[2] == b[2])
}

/// id_desc() on headers of exactly three bytes: the smallest size at which id and description can
/// both be non-empty ("a b") and at which 3-byte UTF-8 sequences occur
macro_rules! text_both3 {
    ($name:ident, $rec:expr, $tr:path) => {
        pub fn $name<N: Nd>(nd: &mut N) {
            use $tr;
            let h = [nd.u8(), nd.u8(), nd.u8()];
            nd.assume(h[0] != LF && h[1] != LF && h[2] != LF);
            nd.note("head", &h[..]);
            let o = $rec(h.to_vec());
            let idb = o.id_bytes();
            let db = o.desc_bytes();
            let both = o.id_desc();
            vassert!(both.is_ok() == utf8_ok3(&h[..]), "C13 id_desc() succeeds exactly when the header is valid UTF-8");
            if let Ok((i, dd)) = both {
                vassert!(eq3(i.as_bytes(), idb), "C13 id_desc() returns the id bytes");
                vassert!(dd.is_some() == db.is_some(), "C13 id_desc() description presence");
                if let (Some(x), Some(y)) = (dd, db) {
                    vassert!(eq3(x.as_bytes(), y), "C13 id_desc() returns the description bytes");
                }
            }
            cover!(h[1] == b' ' && h[0] != b' ' && h[2] != b' ' && both.is_ok(), "id and description both non-empty");
            cover!(h[0] >= 0xe0 && both.is_ok(), "three-byte UTF-8 sequence");
            cover!(both.is_err(), "a header that is not valid UTF-8");
            std::mem::forget(o);
        }
    };
}
text_both3!(fa_text_both3, |h| seq_io::fasta::OwnedRecord { head: h, seq: Vec::new() }, seq_io::fasta::Record);
text_both3!(fq_text_both3, |h| seq_io::fastq::OwnedRecord { head: h, seq: Vec::new(), qual: Vec::new() }, seq_io::fastq::Record);

pub fn fq_views<N: Nd>(nd: &mut N) {
    use seq_io::fastq::Record;
    let parts = any_fq_record(nd, true);
    let bp = parts.bufpos();
    let rec = bp.record(parts.buffer());
    let buf = &parts.buf[..];
    vassert!(same(rec.head(), buf, parts.head()), "C13 head is the header line without '@' and terminator");
    vassert!(same(rec.seq(), buf, parts.seq_r()), "C13 seq is the second line without terminator");
    vassert!(same(rec.qual(), buf, parts.qual_r()), "C13 qual is the fourth line without terminator");
    let o = rec.to_owned_record();
    vassert!(same(&o.head, buf, parts.head()), "C13 the owned record has the same header");
    vassert!(same(&o.seq, buf, parts.seq_r()), "C13 the owned record has the same sequence");
    vassert!(same(&o.qual, buf, parts.qual_r()), "C13 the owned record has the same quality");
    check_id_desc(rec.head(), rec.id_bytes(), rec.desc_bytes(), rec.id_desc_bytes());
    cover!(rec.seq().len() == 2, "two-byte sequence");
    cover!(parts.pos1 == parts.blen, "record without final terminator");
    std::mem::forget(o);
    std::mem::forget(bp);
}

pub fn fa_views_l1<N: Nd>(nd: &mut N) {
    fa_views::<N, 1>(nd)
}
pub fn fa_views_l2<N: Nd>(nd: &mut N) {
    fa_views::<N, 2>(nd)
}
pub fn fa_views_l3<N: Nd>(nd: &mut N) {
    fa_views::<N, 3>(nd)
}

harnesses! {
    /// @meta props=C13 tier=quick kind=R timeout=1500 mem=12 unwind=12 bounds="FASTA record from parts under the record invariant: buffer <= 8 symbolic bytes, 0 sequence lines; RefRecord, OwnedRecord"
    c13_fa_views_l1 => fa_views_l1;
    /// @meta props=C13 tier=quick kind=R timeout=1500 mem=12 unwind=12 bounds="FASTA record from parts: buffer <= 8 bytes, 1 sequence line"
    c13_fa_views_l2 => fa_views_l2;
    /// @meta props=C13:t tier=quick kind=R timeout=1500 mem=12 unwind=12 bounds="FASTA record from parts: buffer <= 8 bytes, 2 sequence lines"
    c13_fa_views_l3 => fa_views_l3;
    /// @meta props=C13 tier=quick kind=R timeout=900 mem=12 unwind=4 bounds="FASTA id() on every header of <= 2 arbitrary bytes (2-byte UTF-8 sequences, invalid bytes, space); core::str::from_utf8 stubbed by an explicit 2-byte validator"
    #[kani::stub(std::str::from_utf8, crate::c13::stub_from_utf8)]
    c13_fa_text_id => fa_text_id;
    /// @meta props=C13 tier=quick kind=R timeout=900 mem=12 unwind=4 bounds="FASTA desc() on every header of <= 2 arbitrary bytes (2-byte UTF-8 sequences, invalid bytes, space); core::str::from_utf8 stubbed by an explicit 2-byte validator"
    #[kani::stub(std::str::from_utf8, crate::c13::stub_from_utf8)]
    c13_fa_text_desc => fa_text_desc;
    /// @meta props=C13 tier=quick kind=R timeout=900 mem=12 unwind=4 bounds="FASTQ id() on every header of <= 2 arbitrary bytes (2-byte UTF-8 sequences, invalid bytes, space); core::str::from_utf8 stubbed by an explicit 2-byte validator"
    #[kani::stub(std::str::from_utf8, crate::c13::stub_from_utf8)]
    c13_fq_text_id => fq_text_id;
    /// @meta props=C13 tier=quick kind=R timeout=900 mem=12 unwind=4 bounds="FASTQ desc() on every header of <= 2 arbitrary bytes (2-byte UTF-8 sequences, invalid bytes, space); core::str::from_utf8 stubbed by an explicit 2-byte validator"
    #[kani::stub(std::str::from_utf8, crate::c13::stub_from_utf8)]
    c13_fq_text_desc => fq_text_desc;
    /// @meta props=C13 tier=quick kind=R timeout=900 mem=12 unwind=5 bounds="FASTQ id_desc() on every header of <= 2 arbitrary bytes (2-byte UTF-8 sequences, invalid bytes, space); core::str::from_utf8 stubbed by an explicit 2-byte validator and core's internal memchr (CharSearcher of str::splitn) by a byte loop"
    #[kani::stub(std::str::from_utf8, crate::c13::stub_from_utf8)]
    #[kani::stub(core::slice::memchr::memchr, crate::c13::stub_core_memchr)]
    c13_fq_text_both => fq_text_both;
    /// @meta props=C13 tier=quick kind=R timeout=900 mem=12 unwind=5 bounds="FASTA id_desc() on every header of <= 2 arbitrary bytes (2-byte UTF-8 sequences, invalid bytes, space); core::str::from_utf8 stubbed by an explicit 2-byte validator and core's internal memchr (CharSearcher of str::splitn) by a byte loop"
    #[kani::stub(std::str::from_utf8, crate::c13::stub_from_utf8)]
    #[kani::stub(core::slice::memchr::memchr, crate::c13::stub_core_memchr)]
    c13_fa_text_both => fa_text_both;
    /// @meta props=C13 tier=quick kind=R timeout=900 mem=12 unwind=6 bounds="FASTQ id_desc() on every header of exactly 3 arbitrary bytes (id and description both non-empty, 3-byte UTF-8 sequences, invalid bytes); core::str::from_utf8 stubbed by an explicit 3-byte validator and core's internal memchr by a byte loop"
    #[kani::stub(std::str::from_utf8, crate::c13::stub_from_utf8_3)]
    #[kani::stub(core::slice::memchr::memchr, crate::c13::stub_core_memchr)]
    c13_fq_text_both3 => fq_text_both3;
    /// @meta props=C13 tier=quick kind=R timeout=900 mem=12 unwind=6 bounds="FASTA id_desc() on every header of exactly 3 arbitrary bytes (id and description both non-empty, 3-byte UTF-8 sequences, invalid bytes); core::str::from_utf8 stubbed by an explicit 3-byte validator and core's internal memchr by a byte loop"
    #[kani::stub(std::str::from_utf8, crate::c13::stub_from_utf8_3)]
    #[kani::stub(core::slice::memchr::memchr, crate::c13::stub_core_memchr)]
    c13_fa_text_both3 => fa_text_both3;
    /// @meta props=C13 tier=quick kind=R timeout=1500 mem=12 unwind=12 bounds="FASTQ record from parts under the record invariant: buffer <= 10 symbolic bytes, valid record; RefRecord, OwnedRecord"
    c13_fq_views => fq_views;
}

//! Naive stand-in for the `memchr` crate, used only inside the Kani harness
//! workspace (through `[patch.crates-io]`). The real crate selects an
//! implementation at run time with `cpuid` inline assembly, which CBMC cannot
//! execute. The shim is validated against the real crate's portable
//! implementation in /verif/shimcheck.

#[inline]
pub fn memchr(needle: u8, haystack: &[u8]) -> Option<usize> {
    let mut i = 0;
    while i < haystack.len() {
        if haystack[i] == needle {
            return Some(i);
        }
        i += 1;
    }
    None
}

#[inline]
pub fn memrchr(needle: u8, haystack: &[u8]) -> Option<usize> {
    let mut i = haystack.len();
    while i > 0 {
        i -= 1;
        if haystack[i] == needle {
            return Some(i);
        }
    }
    None
}

#[inline]
pub fn memchr2(n1: u8, n2: u8, haystack: &[u8]) -> Option<usize> {
    let mut i = 0;
    while i < haystack.len() {
        if haystack[i] == n1 || haystack[i] == n2 {
            return Some(i);
        }
        i += 1;
    }
    None
}

#[inline]
pub fn memchr3(n1: u8, n2: u8, n3: u8, haystack: &[u8]) -> Option<usize> {
    let mut i = 0;
    while i < haystack.len() {
        if haystack[i] == n1 || haystack[i] == n2 || haystack[i] == n3 {
            return Some(i);
        }
        i += 1;
    }
    None
}

/// Forward/backward iterator over the positions of one byte.
#[derive(Clone, Debug)]
pub struct Memchr<'h> {
    needle: u8,
    haystack: &'h [u8],
    front: usize,
    back: usize,
}

impl<'h> Memchr<'h> {
    #[inline]
    pub fn new(needle: u8, haystack: &'h [u8]) -> Memchr<'h> {
        Memchr {
            needle,
            haystack,
            front: 0,
            back: haystack.len(),
        }
    }
}

impl<'h> Iterator for Memchr<'h> {
    type Item = usize;

    #[inline]
    fn next(&mut self) -> Option<usize> {
        while self.front < self.back {
            let i = self.front;
            self.front += 1;
            if self.haystack[i] == self.needle {
                return Some(i);
            }
        }
        None
    }

    #[inline]
    fn size_hint(&self) -> (usize, Option<usize>) {
        (0, Some(self.back - self.front))
    }
}

impl<'h> DoubleEndedIterator for Memchr<'h> {
    #[inline]
    fn next_back(&mut self) -> Option<usize> {
        while self.back > self.front {
            self.back -= 1;
            if self.haystack[self.back] == self.needle {
                return Some(self.back);
            }
        }
        None
    }
}

#[inline]
pub fn memchr_iter<'h>(needle: u8, haystack: &'h [u8]) -> Memchr<'h> {
    Memchr::new(needle, haystack)
}

#!/usr/bin/env python3
"""check.py <PROPERTY> [--tier quick|thorough] [--only HARNESS] [--jobs N]
            check.py --replay <replay.json>
            check.py --list

Driver of the solver-based checks (see DESIGN.md §8).

For the given property it
  1. selects the registered harnesses (parsed from the `/// @meta` lines in /verif/kani/src/*.rs),
  2. compiles the harness crate against /repo's *current working tree* (path dependency, hooks on),
  3. lets Kani/CBMC decide every harness (symbolic inputs, unwinding assertions on, cover witnesses),
  4. for a FAILED harness asks Kani for the concrete counterexample, replays it natively against
     the real crate (real memchr, real buffer-redux; dev and release), and for harnesses that start
     from an internal state additionally looks for a public-API scenario on the same input
     (tool `pubcheck`) before anything is called a violation,
  5. writes /verif/evidence/<id>.json.

exit 0  property held on everything explored (known findings are printed as KNOWN-FINDING lines)
exit 1  VIOLATION property=<id> replay=<path>   (reproduced natively)
exit 2  inconclusive: solver counterexample that does not reproduce, timeout, OOM, build failure
exit 3  broken harness: a cover witness is unsatisfied (vacuity) or an unwinding assertion failed
"""
import concurrent.futures as cf
import hashlib
import json
import os
import re
import resource
import shutil
import subprocess
import sys
import time

VERIF = os.path.dirname(os.path.abspath(__file__))
REPO = "/repo"
KANI_DIR = os.path.join(VERIF, "kani")
REPLAY_DIR = os.path.join(VERIF, "replay")
WORK = os.path.join(VERIF, ".work")
KT = os.path.join(WORK, "kani-target")
RT = os.path.join(WORK, "replay-target")
LOGS = os.path.join(WORK, "logs")
EVID = os.path.join(VERIF, "evidence")
REPLAYS = os.path.join(VERIF, "replays")
KNOWN = os.path.join(VERIF, "known_findings.json")
PARTIAL = False
GUARD = "--cfg markschl_seq_io_verif --check-cfg cfg(markschl_seq_io_verif)"

# VERIF_REPO=<dir>: run the checks against a scratch copy of the repository (used only to try seeded
# changes in parallel); the harness and replay crates are copied with their path dependency rewritten
# and get their own target directories.  The registered commands never set it: they check /repo.
ALT_REPO = os.environ.get("VERIF_REPO", "")
if ALT_REPO and os.path.abspath(ALT_REPO) != "/repo":
    REPO = os.path.abspath(ALT_REPO)
    _tag = hashlib.sha1(REPO.encode()).hexdigest()[:8]
    _alt = os.path.join(WORK, "alt-" + _tag)
    for _name in ("kani", "replay"):
        _dst = os.path.join(_alt, _name)
        shutil.rmtree(_dst, ignore_errors=True)
        shutil.copytree(os.path.join(VERIF, _name), _dst, ignore=shutil.ignore_patterns("target"))
        _ct = open(os.path.join(_dst, "Cargo.toml")).read()
        _ct = _ct.replace('path = "/repo"', 'path = "%s"' % REPO).replace('path = "../shims/memchr"', 'path = "%s/shims/memchr"' % VERIF)
        _ct = _ct.replace('path = "../kani/src/lib.rs"', 'path = "%s/kani/src/lib.rs"' % _alt)
        open(os.path.join(_dst, "Cargo.toml"), "w").write(_ct)
    KANI_DIR = os.path.join(_alt, "kani")
    REPLAY_DIR = os.path.join(_alt, "replay")
    KT = os.path.join(_alt, "kani-target")
    RT = os.path.join(_alt, "replay-target")
    LOGS = os.path.join(_alt, "logs")
    EVID = os.path.join(_alt, "evidence")
    REPLAYS = os.path.join(_alt, "replays")

ENV = dict(os.environ)
ENV["CARGO_NET_OFFLINE"] = "true"
ENV["RUSTFLAGS"] = GUARD
ENV.pop("CARGO_TARGET_DIR", None)


# ----------------------------------------------------------------------------------------------
# registry: parsed from the harness sources
# ----------------------------------------------------------------------------------------------
META_RE = re.compile(r"^\s*///\s*@meta\s+(.*)$")
ENTRY_RE = re.compile(r"^\s*([a-z0-9_]+)\s*=>\s*([A-Za-z0-9_:]+)\s*;")
ATTR_RE = re.compile(r"^\s*#\[(.*)\]\s*$")


def parse_meta(s):
    out = {}
    for m in re.finditer(r'(\w+)=("([^"]*)"|\S+)', s):
        out[m.group(1)] = m.group(3) if m.group(3) is not None else m.group(2)
    return out


def load_registry():
    reg = {}
    src = os.path.join(KANI_DIR, "src")
    for fn in sorted(os.listdir(src)):
        if not fn.endswith(".rs"):
            continue
        meta, attrs = {}, []
        for line in open(os.path.join(src, fn)):
            m = META_RE.match(line)
            if m:
                meta.update(parse_meta(m.group(1)))
                continue
            a = ATTR_RE.match(line)
            if a and meta:
                attrs.append(a.group(1))
                continue
            e = ENTRY_RE.match(line)
            if e and meta:
                name = e.group(1)
                h = dict(meta)
                h["name"] = name
                h["body"] = e.group(2)
                h["file"] = fn
                h["attrs"] = attrs
                pl = h.get("props", "").split(",")
                # "C05:t" = registered for C05 in the thorough tier only
                h["props_thorough_only"] = [x[:-2] for x in pl if x.endswith(":t")]
                h["props"] = [x[:-2] if x.endswith(":t") else x for x in pl]
                h["tier"] = h.get("tier", "quick")
                h["timeout"] = int(h.get("timeout", "600"))
                h["mem"] = int(h.get("mem", "12"))
                h["stubbing"] = any("kani::stub" in x for x in attrs)
                reg[name] = h
                meta, attrs = {}, []
    return reg


# ----------------------------------------------------------------------------------------------
# running Kani
# ----------------------------------------------------------------------------------------------
def limit(mem_gb):
    def f():
        lim = mem_gb * (1 << 30)
        resource.setrlimit(resource.RLIMIT_AS, (lim, lim))
        os.setsid()
    return f


def run(cmd, cwd, timeout, mem_gb=None, log=None, env=None):
    t0 = time.time()
    try:
        p = subprocess.Popen(cmd, cwd=cwd, env=env or ENV, stdout=subprocess.PIPE,
                             stderr=subprocess.STDOUT, text=True,
                             preexec_fn=limit(mem_gb) if mem_gb else os.setsid)
        try:
            out, _ = p.communicate(timeout=timeout)
            rc = p.returncode
        except subprocess.TimeoutExpired:
            try:
                os.killpg(p.pid, 9)
            except Exception:
                pass
            out, _ = p.communicate()
            rc = -999
    except Exception as e:  # pragma: no cover
        out, rc = "spawn failed: %r" % e, -998
    if log:
        with open(log, "w") as f:
            f.write("$ " + " ".join(cmd) + "\n" + out)
    return rc, out, time.time() - t0


def fq(h):
    return "%s::%s" % (h["file"][:-3], h["name"])


def find_goto(h):
    """newest goto binary of the harness below the kani target dir"""
    best, bt = None, 0
    root = os.path.join(KT, "kani")
    for dp, dn, fn in os.walk(root):
        if not dp.endswith("/out"):
            continue
        for f in fn:
            if f.endswith(h["name"] + ".out") and not f.endswith(".symtab.out"):
                t = os.path.getmtime(os.path.join(dp, f))
                if t > bt:
                    best, bt = os.path.join(dp, f), t
    return best


def loop_bounds(h):
    """per-loop unwind bounds: the harness's `unwindset="regex:n;regex:n"` rules are matched against the
    function names goto-instrument lists for the loops of the harness's goto binary"""
    rules = [r.rsplit(":", 1) for r in h.get("unwindset", "").split(";") if r.strip()]
    if not rules:
        return None
    cmd = ["cargo", "kani", "--only-codegen", "--harness", fq(h), "--exact", "--target-dir", KT]
    if h["stubbing"]:
        cmd += ["-Z", "stubbing"]
    rc, out, _ = run(cmd, KANI_DIR, 1800, log=os.path.join(LOGS, h["name"] + ".codegen.log"))
    g = find_goto(h)
    if rc != 0 or not g:
        return None
    rc, out, _ = run(["goto-instrument", "--show-loops", g], KANI_DIR, 300)
    pairs = []
    cur = None
    for ln in out.splitlines():
        m = re.match(r"^Loop (\S+):\s*$", ln)
        if m:
            cur = m.group(1)
            continue
        m = re.search(r"function (.*)$", ln)
        if m and cur:
            fn = m.group(1)
            for rx, n in rules:
                if re.search(rx, fn):
                    pairs.append("%s:%s" % (cur, n))
                    break
            cur = None
    return ",".join(pairs)


def kani_cmd(h, extra=()):
    cmd = ["cargo", "kani", "--harness", fq(h), "--exact", "--target-dir", KT]
    z = []
    if h["stubbing"]:
        z += ["-Z", "stubbing"]
    us = None
    if h.get("unwindset"):
        if "_unwindset_resolved" not in h:
            h["_unwindset_resolved"] = loop_bounds(h)
        us = h["_unwindset_resolved"]
    z += ["-Z", "unstable-options"]
    cmd += z
    cmd += list(extra)
    cmd += ["--cbmc-args", "--unwind", str(h.get("unwind", "2"))]
    if us:
        cmd += ["--unwindset", us]
    return cmd


CHECK_RE = re.compile(r"^Check (\d+): (.+?)\s*$")


def parse_kani(out):
    """-> dict(status, failed=[(name, desc, loc)], covers=(sat,total), unsat_covers=[..], checks, funcs, vtime)"""
    res = dict(status="UNKNOWN", failed=[], covers=(0, 0), unsat_covers=[], checks=0,
               funcs=set(), vtime=0.0, unwind_fail=False, solver_s=0.0)
    lines = out.splitlines()
    i = 0
    cur = None
    while i < len(lines):
        ln = lines[i]
        m = CHECK_RE.match(ln)
        if m:
            cur = dict(name=m.group(2), status=None, desc="", loc="")
        elif cur is not None and ln.strip().startswith("- Status:"):
            cur["status"] = ln.split(":", 1)[1].strip()
        elif cur is not None and ln.strip().startswith("- Description:"):
            cur["desc"] = ln.split(":", 1)[1].strip().strip('"')
        elif cur is not None and ln.strip().startswith("- Location:"):
            cur["loc"] = ln.split(":", 1)[1].strip()
            fm = re.search(r"in function (\S+)", cur["loc"])
            if fm and "seq_io" in fm.group(1):
                res["funcs"].add(fm.group(1))
            res["checks"] += 1
            if cur["status"] == "FAILURE":
                res["failed"].append((cur["name"], cur["desc"], cur["loc"]))
                if "unwinding assertion" in cur["desc"]:
                    res["unwind_fail"] = True
            if ".cover." in cur["name"] and cur["status"] in ("UNSATISFIABLE", "UNREACHABLE"):
                if cur["desc"].startswith("opt:"):
                    res["opt_unsat"] = res.get("opt_unsat", 0) + 1
                else:
                    res["unsat_covers"].append(cur["desc"])
            cur = None
        m = re.search(r"\*\* (\d+) of (\d+) cover properties satisfied", ln)
        if m:
            res["covers"] = (int(m.group(1)), int(m.group(2)))
        if ln.startswith("VERIFICATION:-"):
            res["status"] = ln.split(":-")[1].strip()
        m = re.match(r"Verification Time: ([0-9.]+)s", ln)
        if m:
            res["vtime"] = float(m.group(1))
        m = re.match(r"Runtime (Solver|decision procedure): ([0-9.]+)s", ln)
        if m:
            res["solver_s"] += float(m.group(2))
        i += 1
    if "Status: ERROR" in out or "CBMC failed" in out or "out of memory" in out.lower():
        if res["status"] != "SUCCESSFUL":
            res["status"] = "ERROR"
    return res


def parse_playback(out):
    """all concrete playback tests printed by Kani -> list of (kind, description, [hex values])"""
    tests = []
    for blk in re.split(r"Concrete playback unit test for", out)[1:]:
        km = re.search(r"/// Check for `(\w+)`: \"(.*?)\"\s*$", blk, re.M)
        m = re.search(r"let concrete_vals: Vec<Vec<u8>> = vec!\[(.*?)\n\s*\];", blk, re.S)
        if not m:
            continue
        vals = []
        for vm in re.finditer(r"vec!\[([0-9, ]*)\]", m.group(1)):
            nums = [int(x) for x in vm.group(1).replace(" ", "").split(",") if x != ""]
            vals.append("".join("%02x" % n for n in nums))
        tests.append((km.group(1) if km else "?", km.group(2) if km else "", vals))
    return tests


# ----------------------------------------------------------------------------------------------
# native replay
# ----------------------------------------------------------------------------------------------
_replay_built = {}


def build_replay(profile):
    if profile in _replay_built:
        return _replay_built[profile]
    cmd = ["cargo", "build", "--offline", "--target-dir", RT]
    if profile == "release":
        cmd.append("--release")
    rc, out, _ = run(cmd, REPLAY_DIR, 1200, log=os.path.join(LOGS, "build-replay-%s.log" % profile))
    path = os.path.join(RT, profile if profile == "release" else "debug")
    ok = rc == 0
    _replay_built[profile] = (ok, path)
    return ok, path


def native_replay(name, tape, profile="debug", focus=""):
    ok, path = build_replay(profile)
    if not ok:
        return dict(outcome="build-failed")
    env2 = dict(ENV)
    env2["SV_FOCUS"] = focus if focus != "ALL" else ""
    rc, out, _ = run([os.path.join(path, "replay"), name, ",".join(tape) if tape else "-"], VERIF, 20, env=env2)
    if rc == -999:
        return dict(outcome="hang", notes={}, message="native run did not finish within 20 s")
    last = [l for l in out.splitlines() if l.startswith("{")]
    try:
        return json.loads(last[-1])
    except Exception:
        return dict(outcome="crash", raw=out[-2000:], rc=rc)


def pubcheck(prop, notes, profile="release"):
    """public-API confirmation on the concrete input of a counterexample (stage 2)."""
    ok, path = build_replay(profile)
    if not ok:
        return dict(outcome="build-failed")
    exe = os.path.join(path, "pubcheck")
    if not os.path.exists(exe):
        return dict(outcome="unavailable")
    rc, out, _ = run([exe, prop, json.dumps(notes)], VERIF, 900)
    last = [l for l in out.splitlines() if l.startswith("{")]
    try:
        return json.loads(last[-1])
    except Exception:
        return dict(outcome="crash", raw=out[-2000:], rc=rc)


# ----------------------------------------------------------------------------------------------
def load_known():
    if os.path.exists(KNOWN):
        return json.load(open(KNOWN)).get("findings", [])
    return []


def match_known(known, prop, harness, label):
    for k in known:
        if k.get("status") != "known":
            continue
        if k["property"] != prop:
            continue
        if k.get("harness") and k["harness"] != harness:
            continue
        if k.get("label") and k["label"] not in label:
            continue
        return k
    return None


def decide_harness(h, tier, prop=""):
    """run one harness; returns a result record"""
    name = h["name"]
    log = os.path.join(LOGS, name + ".log")
    rc, out, wall = run(kani_cmd(h), KANI_DIR, h["timeout"], h["mem"], log)
    r = parse_kani(out)
    rec = dict(harness=name, kind=h.get("kind", "?"), bounds=h.get("bounds", ""), wall_s=round(wall, 1),
               status=r["status"], checks=r["checks"], covers=list(r["covers"]),
               funcs=sorted(r["funcs"]), verification_s=r["vtime"], stubs=[a for a in h["attrs"] if "stub" in a],
               unwind=["unwind=%s" % h.get("unwind", "2")] + ([h["unwindset"]] if h.get("unwindset") else []), failed=[], verdict=None)
    if rc == -999:
        rec["verdict"] = "timeout"
        return rec
    if r["status"] == "SUCCESSFUL":
        if r["covers"][0] + r.get("opt_unsat", 0) != r["covers"][1]:
            rec["verdict"] = "vacuous"
            rec["unsat_covers"] = r["unsat_covers"]
        else:
            rec["verdict"] = "holds"
        return rec
    if r["status"] == "FAILED":
        rec["failed"] = [dict(check=a, desc=b, loc=c) for a, b, c in r["failed"]][:20]
        if r["unwind_fail"]:
            rec["verdict"] = "unwind-too-small"
            if prop != "C06":
                return rec
            # C06 (no hang): a loop of the code under test that does not finish within a bound derived
            # from the input size may be a genuine non-termination. Ask for the concrete input and run it
            # natively under a watchdog: only a native hang is reported.
            log2 = os.path.join(LOGS, name + ".playback.log")
            rc2, out2, wall2 = run(kani_cmd(h, ["-Z", "concrete-playback", "--concrete-playback=print"]),
                                   KANI_DIR, h["timeout"] * 2, min(h["mem"] * 2, 44), log2)
            rec["wall_s"] = round(wall + wall2, 1)
            # Kani prints no playback test for a failed unwinding assertion; the public-API monitor runs
            # canonical inputs (blank tails, CR tails, truncated records) of the affected format under a
            # watchdog instead
            pc = pubcheck("C06", dict(format="fasta" if name.startswith("fak") else "fastq" if name.startswith("fqk") else "both"))
            if pc.get("outcome") == "fail" and "does not return" in pc.get("message", ""):
                rec["verdict"] = "cex-reproduced"
                rec["tape"] = []
                nat = dict(outcome="hang", message="C06 " + pc["message"] + " :: " + pc.get("scenario", ""), notes=dict(scenario=pc.get("scenario", "")))
                rec["native_debug"] = nat
                rec["native_release"] = nat
                rec["pubcheck"] = pc
                rec["confirmed_by_pubcheck"] = True
                rec["failed"] = [dict(check="unwinding", desc="unwinding assertion of a loop of the code under test", loc="")]
                return rec
            for kind, desc, tape in [t for t in parse_playback(out2) if "unwinding" in t[1]][:4]:
                nat = native_replay(name, tape, "release", "")
                if nat.get("outcome") == "hang":
                    rec["verdict"] = "cex-reproduced"
                    rec["tape"] = tape
                    nat["message"] = "C06 the call does not return (native run killed by the watchdog after 20 s): " + desc
                    rec["native_debug"] = nat
                    rec["native_release"] = nat
                    rec["failed"] = [dict(check="unwinding", desc=desc, loc="")]
                    break
            return rec
        # attribution: assertions are labelled with the property they decide; unlabelled checks are
        # the built-in ones (panic, overflow, bounds, pointer validity) and count for every property
        lab = re.compile(r"^C\d\d\d? ")
        rel = [x for x in r["failed"] if x[1].startswith(prop + " ") or not lab.match(x[1]) or prop == "ALL"]
        other = sorted({x[1][:3] for x in r["failed"] if lab.match(x[1]) and not x[1].startswith(prop + " ")})
        rec["other_props_failing"] = other
        lemma = None
        if not rel and other and prop != "ALL":
            # An assertion that fails ends its path, so a failing obligation of another property can mask
            # this property's obligations that come after it.  Decide them separately: rebuild with only
            # this property's assertions (and the built-in checks) active.
            envf = dict(ENV)
            envf["SV_FOCUS"] = prop
            logf = os.path.join(LOGS, name + ".focus.log")
            rcf, outf, wallf = run(kani_cmd(h), KANI_DIR, h["timeout"], h["mem"], logf, env=envf)
            rf = parse_kani(outf)
            wall += wallf
            rec["wall_s"] = round(wall, 1)
            rec["focused_rerun"] = rf["status"]
            if rf["status"] == "FAILED" and not rf["unwind_fail"]:
                rel = [x for x in rf["failed"] if x[1].startswith(prop + " ") or not lab.match(x[1])]
            elif rf["status"] != "SUCCESSFUL" and h.get("stage2", "no") != "pub":
                rec["verdict"] = "error" if rcf != -999 else "timeout"
                rec["tail"] = outf[-1500:]
                return rec
        if not rel:
            if h.get("stage2", "no") != "pub" or not other:
                # the obligations of this property inside the harness were all discharged
                rec["verdict"] = "holds"
                rec["failed"] = []
                return rec
            # A kernel shared with other properties fails an obligation labelled for another property.
            # Such an obligation is a lemma of this property's composition argument too: take its
            # counterexample and let the public-API monitor decide whether THIS property is affected.
            lemma = other[0]
            rel = [x for x in r["failed"] if x[1].startswith(lemma + " ")]
        rec["failed"] = [dict(check=a, desc=b, loc=c) for a, b, c in rel][:20]
        # counterexample for this property: rebuild with only its assertions active
        env2 = dict(ENV)
        env2["SV_FOCUS"] = (lemma or prop) if prop != "ALL" else ""
        log2 = os.path.join(LOGS, name + ".playback.log")
        rc2, out2, wall2 = run(kani_cmd(h, ["-Z", "concrete-playback", "--concrete-playback=print"]),
                               KANI_DIR, h["timeout"] * 2, min(h["mem"] * 2, 44), log2, env=env2)
        rec["wall_s"] = round(wall + wall2, 1)
        tests = [t for t in parse_playback(out2) if t[0] != "cover"]
        # counterexamples of this property's (or the lemma's) obligations first
        want = (lemma or prop) + " "
        tests.sort(key=lambda t: 0 if t[1].startswith(want) else 1)
        rec["tape"] = None
        rec["lemma_of"] = lemma
        if not tests:
            rec["verdict"] = "cex-no-tape"
            return rec
        rec["verdict"] = "cex-not-reproduced"
        for kind, desc, tape in tests[:6]:
            nat = native_replay(name, tape, "debug", lemma or prop)
            natr = native_replay(name, tape, "release", lemma or prop)
            rec["tape"] = tape
            rec["native_debug"] = nat
            rec["native_release"] = natr
            if nat.get("outcome") == "fail" or natr.get("outcome") == "fail":
                rec["verdict"] = "cex-reproduced"
                break
        return rec
    rec["verdict"] = "error"
    rec["tail"] = out[-1500:]
    return rec


def main():
    args = sys.argv[1:]
    if not args:
        print(__doc__)
        return 2
    if args[0] == "--list":
        for n, h in sorted(load_registry().items()):
            print("%-44s %-10s %-8s %s" % (n, ",".join(h["props"]), h["tier"], h.get("kind", "")))
        return 0
    if args[0] == "--replay":
        rp = json.load(open(args[1]))
        bad = 0
        for prof in ("debug", "release"):
            nat = native_replay(rp["harness"], rp["tape"], prof, rp.get("property", ""))
            print(prof, json.dumps(nat))
            if nat.get("outcome") == "fail":
                bad = 1
        return bad
    prop = args[0]
    tier = os.environ.get("VERIF_TIER", "quick")
    only = None
    jobs = None
    i = 1
    while i < len(args):
        if args[i] == "--tier":
            tier = args[i + 1]
            i += 2
        elif args[i] == "--only":
            only = args[i + 1]
            i += 2
        elif args[i] == "--match":
            only = re.compile(args[i + 1])
            i += 2
        elif args[i] == "--jobs":
            jobs = int(args[i + 1])
            i += 2
        else:
            i += 1
    seed = int(os.environ.get("VERIF_SEED", "0") or 0)
    if prop in ("C07", "C08", "C15", "C16"):
        e3 = os.path.join(VERIF, "e3", "check_par.py")
        if os.path.exists(e3):
            vt = shutil.which("python3-vt") or sys.executable
            return subprocess.call([vt, e3, prop, "--tier", tier])
    os.makedirs(LOGS, exist_ok=True)
    os.makedirs(EVID, exist_ok=True)
    os.makedirs(REPLAYS, exist_ok=True)
    t0 = time.time()
    reg = load_registry()
    sel = [h for h in reg.values() if (prop in h["props"] or prop == "ALL")
           and ((tier == "thorough" and h["tier"] != "pilot") or (tier == "pilot" and h["tier"] == "pilot")
                or (h["tier"] == "quick" and prop not in h["props_thorough_only"]))]
    if only:
        global PARTIAL
        PARTIAL = True
        sel = [h for h in sel if (only.search(h["name"]) if hasattr(only, "search") else h["name"] == only)]
    sel.sort(key=lambda h: -h["timeout"])
    if not sel:
        print("no harness registered for %s (%s)" % (prop, tier))
        return 2
    # first build (serialised by cargo's lock anyway): compile dependencies once
    pre = dict(sel[-1])
    rcb, outb, wb = run(["cargo", "kani", "--only-codegen", "--harness", fq(pre), "--exact", "--target-dir", KT]
                        + (["-Z", "stubbing"] if pre["stubbing"] else []), KANI_DIR, 1800,
                        log=os.path.join(LOGS, "build-%s.log" % prop))
    if rcb != 0:
        print("BUILD-FAILED: the harness crate does not compile against /repo (see %s)" % os.path.join(LOGS, "build-%s.log" % prop))
        print(outb[-3000:])
        write_evidence(prop, tier, seed, [], time.time() - t0, 0, ["build failed"], build_failed=True)
        return 2
    if jobs is None:
        heavy = max(h["mem"] for h in sel)
        jobs = max(1, min(8, 80 // max(heavy, 1)))
    results = []
    with cf.ThreadPoolExecutor(max_workers=jobs) as ex:
        futs = {ex.submit(decide_harness, h, tier, prop): h for h in sel}
        for f in cf.as_completed(futs):
            r = f.result()
            results.append(r)
            print("  [%s] %-44s %-18s %6.1fs checks=%d covers=%s" % (prop, r["harness"], r["verdict"], r["wall_s"], r["checks"], r["covers"]), flush=True)
    results.sort(key=lambda r: r["harness"])
    known = load_known()
    violations, known_hits, inconclusive, broken = [], [], [], []
    for r in results:
        v = r["verdict"]
        if v == "holds":
            continue
        if v == "cex-reproduced":
            nat = r["native_debug"] if r["native_debug"].get("outcome") == "fail" else r["native_release"]
            label = nat.get("message", "")
            k = match_known(known, prop, r["harness"], label)
            if k:
                known_hits.append((r, k))
                continue
            # stage 2 for harnesses that start from an internal state
            h = reg[r["harness"]]
            confirmed = True
            if r.get("confirmed_by_pubcheck"):
                confirmed = True
            elif h.get("stage2", "no") == "pub" or r.get("lemma_of"):
                pc = pubcheck(prop, nat.get("notes", {}))
                r["pubcheck"] = pc
                confirmed = pc.get("outcome") == "fail"
                if pc.get("outcome") == "fail":
                    k = match_known(known, prop, "pubcheck", pc.get("message", ""))
                    if k:
                        known_hits.append((r, k))
                        continue
            if confirmed:
                violations.append(r)
            elif r.get("lemma_of"):
                # the other property's obligation fails, but no public-API failure of this property:
                # not this property's violation (the other property's check reports it)
                r["verdict"] = "holds"
                r["note"] = "lemma of %s fails; no public-API failure for %s" % (r["lemma_of"], prop)
                print("NOTE: %s: obligation of %s fails (reported by that property's check); no public-API failure for %s found" % (r["harness"], r["lemma_of"], prop))
            else:
                inconclusive.append(r)
        elif v in ("vacuous", "unwind-too-small"):
            broken.append(r)
        else:
            inconclusive.append(r)
    wall = time.time() - t0
    rc = 0
    for r, k in known_hits:
        print("KNOWN-FINDING: property=%s %s (harness %s)" % (prop, k.get("what", ""), r["harness"]))
    for r in violations:
        nat = r["native_debug"] if r["native_debug"].get("outcome") == "fail" else r["native_release"]
        body = dict(property=prop, harness=r["harness"], tape=r["tape"], message=nat.get("message"),
                    notes=nat.get("notes"), failed_checks=r["failed"][:5], pubcheck=r.get("pubcheck"),
                    how_to_replay="python3 /verif/check.py --replay <this file>")
        hsh = hashlib.sha1(json.dumps([r["harness"], r["tape"]]).encode()).hexdigest()[:10]
        path = os.path.join(REPLAYS, "%s-%s-%s.json" % (prop, r["harness"], hsh))
        json.dump(body, open(path, "w"), indent=1)
        print("VIOLATION property=%s replay=%s" % (prop, path))
        print("   harness=%s message=%s notes=%s" % (r["harness"], nat.get("message"), json.dumps(nat.get("notes"))))
        rc = 1
    for r in broken:
        print("BROKEN-HARNESS: %s %s %s" % (r["harness"], r["verdict"], r.get("unsat_covers", r["failed"][:3])))
        if rc == 0:
            rc = 3
    for r in inconclusive:
        print("INCONCLUSIVE: %s %s %s" % (r["harness"], r["verdict"], json.dumps(r.get("failed", [])[:3])[:600]))
        if r.get("native_debug"):
            print("   native: %s" % json.dumps(r["native_debug"])[:600])
        if rc == 0:
            rc = 2
    write_evidence(prop, tier, seed, results, wall, len(violations),
                   [k.get("what", "") for _, k in known_hits])
    print("%s tier=%s harnesses=%d holds=%d violations=%d known=%d inconclusive=%d broken=%d wall=%.0fs" % (
        prop, tier, len(results), sum(1 for r in results if r["verdict"] == "holds"), len(violations),
        len(known_hits), len(inconclusive), len(broken), wall))
    return rc


ASSUMPTIONS_COMMON = [
    "memchr replaced by the naive shim /verif/shims/memchr inside the Kani workspace (real memchr in native replay)",
    "bounded: every claim holds only within the per-harness bounds listed in coverage.harnesses[].bounds; unwinding assertions on",
    "Kani/CBMC/CaDiCaL soundness; Kani's models of alloc and of the standard library",
]


def write_evidence(prop, tier, seed, results, wall, nviol, known, build_failed=False):
    holds = [r for r in results if r["verdict"] == "holds"]
    funcs = sorted({f for r in results for f in r.get("funcs", [])})
    samples = []
    for r in results[:40]:
        samples.append(dict(harness=r["harness"], kind=r["kind"], bounds=r["bounds"], verdict=r["verdict"],
                            cbmc_checks=r["checks"], covers_satisfied=r["covers"], solver_wall_s=r["verification_s"],
                            stubs=r["stubs"], unwind=r["unwind"]))
    ev = dict(
        property_id=prop, tier=tier if tier in ("quick", "thorough") else "quick", seed=seed,
        level="model_checking",
        coverage=dict(
            evaluations=max(len(results), 1) if not build_failed else 1,
            distinct_nontrivial=len(holds),
            rule="one evaluation = one Kani/CBMC query (a proof harness over symbolic inputs, decided by the SAT solver "
                 "for all values inside the stated bounds); it counts as distinct and non-trivial when it is a different "
                 "harness, verification was SUCCESSFUL and every kani::cover! witness inside it was SATISFIED",
            samples=samples if samples else ["build failed"],
            obligations=sum(r["checks"] for r in results),
            discharged=sum(r["checks"] for r in holds),
            harnesses=len(results),
            harnesses_holding=len(holds),
            undecided=[r["harness"] for r in results if r["verdict"] not in ("holds", "cex-reproduced")],
            functions_encoded=funcs,
            solver_time_s=round(sum(r["verification_s"] for r in results), 2),
            known_findings_reported=known,
            engine="Kani 0.68.0 / CBMC 6.11.0 / CaDiCaL; encoding regenerated from /repo on this run",
            exhaustive=False,
        ),
        assumptions=ASSUMPTIONS_COMMON + sorted({s for r in results for s in r["stubs"]}),
        wall_s=round(wall, 1),
        violations=nviol,
    )
    # partial runs (--only / --match / ALL surveys) must not replace the evidence of a full run
    dest = EVID if not PARTIAL and prop.startswith("C") else os.path.join(WORK, "evidence-partial")
    os.makedirs(dest, exist_ok=True)
    json.dump(ev, open(os.path.join(dest, prop + ".json"), "w"), indent=1)


if __name__ == "__main__":
    sys.exit(main())

//! C19 — owned records and record sets survive serialisation.
//! A minimal non-self-describing serde back end (a flat stream of u64 words: integers as they are,
//! sequences as length + elements, structs and tuples as their fields in order) lives here; the
//! derive-generated Serialize/Deserialize code of the real types runs against it.
use crate::nd::Nd;
use serde::de::{self, DeserializeSeed, SeqAccess, Visitor};
use serde::ser::{self, Serialize};
use serde::Deserialize;
use std::fmt;

#[derive(Debug)]
pub struct Err0;
impl fmt::Display for Err0 {
    fn fmt(&self, _f: &mut fmt::Formatter) -> fmt::Result {
        Ok(())
    }
}
impl std::error::Error for Err0 {}
impl ser::Error for Err0 {
    fn custom<T: fmt::Display>(_msg: T) -> Self {
        Err0
    }
}
impl de::Error for Err0 {
    fn custom<T: fmt::Display>(_msg: T) -> Self {
        Err0
    }
}

pub const CAP: usize = 48;

pub struct Stream {
    pub w: [u64; CAP],
    pub len: usize,
    pub pos: usize,
    pub bad: bool,
}
impl Stream {
    pub fn new() -> Self {
        Stream { w: [0; CAP], len: 0, pos: 0, bad: false }
    }
    fn put(&mut self, v: u64) {
        if self.len < CAP {
            self.w[self.len] = v;
            self.len += 1;
        } else {
            self.bad = true;
        }
    }
    fn get(&mut self) -> Result<u64, Err0> {
        if self.pos < self.len {
            self.pos += 1;
            Ok(self.w[self.pos - 1])
        } else {
            Err(Err0)
        }
    }
}

pub struct Ser<'a>(pub &'a mut Stream);

macro_rules! ser_int {
    ($($f:ident $t:ty),*) => { $(fn $f(self, v: $t) -> Result<(), Err0> { self.0.put(v as u64); Ok(()) })* };
}

impl<'a, 'b> ser::Serializer for &'b mut Ser<'a> {
    type Ok = ();
    type Error = Err0;
    type SerializeSeq = Self;
    type SerializeTuple = Self;
    type SerializeTupleStruct = Self;
    type SerializeTupleVariant = Self;
    type SerializeMap = Self;
    type SerializeStruct = Self;
    type SerializeStructVariant = Self;
    ser_int!(serialize_bool bool, serialize_i8 i8, serialize_i16 i16, serialize_i32 i32, serialize_i64 i64,
             serialize_u8 u8, serialize_u16 u16, serialize_u32 u32, serialize_u64 u64, serialize_char char);
    fn serialize_f32(self, _v: f32) -> Result<(), Err0> {
        Err(Err0)
    }
    fn serialize_f64(self, _v: f64) -> Result<(), Err0> {
        Err(Err0)
    }
    fn serialize_str(self, _v: &str) -> Result<(), Err0> {
        Err(Err0)
    }
    fn serialize_bytes(self, _v: &[u8]) -> Result<(), Err0> {
        Err(Err0)
    }
    fn serialize_none(self) -> Result<(), Err0> {
        self.0.put(0);
        Ok(())
    }
    fn serialize_some<T: ?Sized + Serialize>(self, v: &T) -> Result<(), Err0> {
        self.0.put(1);
        v.serialize(self)
    }
    fn serialize_unit(self) -> Result<(), Err0> {
        Ok(())
    }
    fn serialize_unit_struct(self, _n: &'static str) -> Result<(), Err0> {
        Ok(())
    }
    fn serialize_unit_variant(self, _n: &'static str, i: u32, _v: &'static str) -> Result<(), Err0> {
        self.0.put(i as u64);
        Ok(())
    }
    fn serialize_newtype_struct<T: ?Sized + Serialize>(self, _n: &'static str, v: &T) -> Result<(), Err0> {
        v.serialize(self)
    }
    fn serialize_newtype_variant<T: ?Sized + Serialize>(self, _n: &'static str, i: u32, _v: &'static str, v: &T) -> Result<(), Err0> {
        self.0.put(i as u64);
        v.serialize(self)
    }
    fn serialize_seq(self, len: Option<usize>) -> Result<Self, Err0> {
        match len {
            Some(n) => {
                self.0.put(n as u64);
                Ok(self)
            }
            None => Err(Err0),
        }
    }
    fn serialize_tuple(self, _len: usize) -> Result<Self, Err0> {
        Ok(self)
    }
    fn serialize_tuple_struct(self, _n: &'static str, _len: usize) -> Result<Self, Err0> {
        Ok(self)
    }
    fn serialize_tuple_variant(self, _n: &'static str, i: u32, _v: &'static str, _len: usize) -> Result<Self, Err0> {
        self.0.put(i as u64);
        Ok(self)
    }
    fn serialize_map(self, _len: Option<usize>) -> Result<Self, Err0> {
        Err(Err0)
    }
    fn serialize_struct(self, _n: &'static str, _len: usize) -> Result<Self, Err0> {
        Ok(self)
    }
    fn serialize_struct_variant(self, _n: &'static str, i: u32, _v: &'static str, _len: usize) -> Result<Self, Err0> {
        self.0.put(i as u64);
        Ok(self)
    }
}

macro_rules! ser_compound {
    ($($tr:ident $m:ident),*) => { $(
        impl<'a, 'b> ser::$tr for &'b mut Ser<'a> {
            type Ok = ();
            type Error = Err0;
            fn $m<T: ?Sized + Serialize>(&mut self, v: &T) -> Result<(), Err0> { v.serialize(&mut **self) }
            fn end(self) -> Result<(), Err0> { Ok(()) }
        }
    )* };
}
ser_compound!(SerializeSeq serialize_element, SerializeTuple serialize_element, SerializeTupleStruct serialize_field, SerializeTupleVariant serialize_field);
impl<'a, 'b> ser::SerializeStruct for &'b mut Ser<'a> {
    type Ok = ();
    type Error = Err0;
    fn serialize_field<T: ?Sized + Serialize>(&mut self, _k: &'static str, v: &T) -> Result<(), Err0> {
        v.serialize(&mut **self)
    }
    fn end(self) -> Result<(), Err0> {
        Ok(())
    }
}
impl<'a, 'b> ser::SerializeStructVariant for &'b mut Ser<'a> {
    type Ok = ();
    type Error = Err0;
    fn serialize_field<T: ?Sized + Serialize>(&mut self, _k: &'static str, v: &T) -> Result<(), Err0> {
        v.serialize(&mut **self)
    }
    fn end(self) -> Result<(), Err0> {
        Ok(())
    }
}
impl<'a, 'b> ser::SerializeMap for &'b mut Ser<'a> {
    type Ok = ();
    type Error = Err0;
    fn serialize_key<T: ?Sized + Serialize>(&mut self, _k: &T) -> Result<(), Err0> {
        Err(Err0)
    }
    fn serialize_value<T: ?Sized + Serialize>(&mut self, _v: &T) -> Result<(), Err0> {
        Err(Err0)
    }
    fn end(self) -> Result<(), Err0> {
        Ok(())
    }
}

pub struct De<'a>(pub &'a mut Stream);

struct Counted<'a, 'b> {
    de: &'b mut De<'a>,
    left: usize,
}
impl<'de, 'a, 'b> SeqAccess<'de> for Counted<'a, 'b> {
    type Error = Err0;
    fn next_element_seed<T: DeserializeSeed<'de>>(&mut self, seed: T) -> Result<Option<T::Value>, Err0> {
        if self.left == 0 {
            return Ok(None);
        }
        self.left -= 1;
        seed.deserialize(&mut *self.de).map(Some)
    }
    fn size_hint(&self) -> Option<usize> {
        Some(self.left)
    }
}

macro_rules! de_int {
    ($($f:ident $v:ident $t:ty),*) => { $(fn $f<V: Visitor<'de>>(self, vis: V) -> Result<V::Value, Err0> { let w = self.0.get()?; vis.$v(w as $t) })* };
}

impl<'de, 'a, 'b> de::Deserializer<'de> for &'b mut De<'a> {
    type Error = Err0;
    fn deserialize_any<V: Visitor<'de>>(self, _v: V) -> Result<V::Value, Err0> {
        Err(Err0)
    }
    de_int!(deserialize_i8 visit_i8 i8, deserialize_i16 visit_i16 i16, deserialize_i32 visit_i32 i32, deserialize_i64 visit_i64 i64,
            deserialize_u8 visit_u8 u8, deserialize_u16 visit_u16 u16, deserialize_u32 visit_u32 u32, deserialize_u64 visit_u64 u64);
    fn deserialize_bool<V: Visitor<'de>>(self, vis: V) -> Result<V::Value, Err0> {
        let w = self.0.get()?;
        vis.visit_bool(w != 0)
    }
    fn deserialize_f32<V: Visitor<'de>>(self, _v: V) -> Result<V::Value, Err0> {
        Err(Err0)
    }
    fn deserialize_f64<V: Visitor<'de>>(self, _v: V) -> Result<V::Value, Err0> {
        Err(Err0)
    }
    fn deserialize_char<V: Visitor<'de>>(self, _v: V) -> Result<V::Value, Err0> {
        Err(Err0)
    }
    fn deserialize_str<V: Visitor<'de>>(self, _v: V) -> Result<V::Value, Err0> {
        Err(Err0)
    }
    fn deserialize_string<V: Visitor<'de>>(self, _v: V) -> Result<V::Value, Err0> {
        Err(Err0)
    }
    fn deserialize_bytes<V: Visitor<'de>>(self, _v: V) -> Result<V::Value, Err0> {
        Err(Err0)
    }
    fn deserialize_byte_buf<V: Visitor<'de>>(self, _v: V) -> Result<V::Value, Err0> {
        Err(Err0)
    }
    fn deserialize_option<V: Visitor<'de>>(self, vis: V) -> Result<V::Value, Err0> {
        let w = self.0.get()?;
        if w == 0 {
            vis.visit_none()
        } else {
            vis.visit_some(self)
        }
    }
    fn deserialize_unit<V: Visitor<'de>>(self, vis: V) -> Result<V::Value, Err0> {
        vis.visit_unit()
    }
    fn deserialize_unit_struct<V: Visitor<'de>>(self, _n: &'static str, vis: V) -> Result<V::Value, Err0> {
        vis.visit_unit()
    }
    fn deserialize_newtype_struct<V: Visitor<'de>>(self, _n: &'static str, vis: V) -> Result<V::Value, Err0> {
        vis.visit_newtype_struct(self)
    }
    fn deserialize_seq<V: Visitor<'de>>(self, vis: V) -> Result<V::Value, Err0> {
        let n = self.0.get()? as usize;
        if n > CAP {
            return Err(Err0);
        }
        vis.visit_seq(Counted { de: self, left: n })
    }
    fn deserialize_tuple<V: Visitor<'de>>(self, len: usize, vis: V) -> Result<V::Value, Err0> {
        vis.visit_seq(Counted { de: self, left: len })
    }
    fn deserialize_tuple_struct<V: Visitor<'de>>(self, _n: &'static str, len: usize, vis: V) -> Result<V::Value, Err0> {
        vis.visit_seq(Counted { de: self, left: len })
    }
    fn deserialize_map<V: Visitor<'de>>(self, _v: V) -> Result<V::Value, Err0> {
        Err(Err0)
    }
    fn deserialize_struct<V: Visitor<'de>>(self, _n: &'static str, fields: &'static [&'static str], vis: V) -> Result<V::Value, Err0> {
        vis.visit_seq(Counted { de: self, left: fields.len() })
    }
    fn deserialize_enum<V: Visitor<'de>>(self, _n: &'static str, _vs: &'static [&'static str], _v: V) -> Result<V::Value, Err0> {
        Err(Err0)
    }
    fn deserialize_identifier<V: Visitor<'de>>(self, _v: V) -> Result<V::Value, Err0> {
        Err(Err0)
    }
    fn deserialize_ignored_any<V: Visitor<'de>>(self, _v: V) -> Result<V::Value, Err0> {
        Err(Err0)
    }
}

fn eq2(a: &[u8], b: &[u8]) -> bool {
    a.len() == b.len() && (a.len() < 1 || a[0] == b[0]) && (a.len() < 2 || a[1] == b[1])
}

pub fn owned_fasta<N: Nd>(nd: &mut N) {
    let h = [nd.u8(), nd.u8()];
    let s = [nd.u8(), nd.u8()];
    // concrete lengths (symbolic vector lengths exhaust the solver's memory), symbolic content
    let (hl, sl) = (2, 1);
    nd.note("head", &h[..hl]);
    nd.note("seq", &s[..sl]);
    let rec = seq_io::fasta::OwnedRecord { head: h[..hl].to_vec(), seq: s[..sl].to_vec() };
    let mut st = Stream::new();
    let r = rec.serialize(&mut Ser(&mut st));
    vassert!(r.is_ok() && !st.bad, "C19 an owned FASTA record serialises");
    let back = seq_io::fasta::OwnedRecord::deserialize(&mut De(&mut st));
    vassert!(back.is_ok(), "C19 a serialised owned FASTA record deserialises");
    if let Ok(b) = &back {
        vassert!(eq2(&b.head, &h[..hl]) && eq2(&b.seq, &s[..sl]), "C19 the deserialised owned FASTA record equals the original");
        vassert!(st.pos == st.len, "C19 deserialisation consumes exactly what serialisation wrote");
    }
    cover!(hl == 2 && sl == 1, "two-byte header, one-byte sequence");
    std::mem::forget(back);
    std::mem::forget(rec);
}

pub fn owned_fastq<N: Nd>(nd: &mut N) {
    let h = [nd.u8(), nd.u8()];
    let s = [nd.u8(), nd.u8()];
    let q = [nd.u8(), nd.u8()];
    let (hl, sl) = (1, 2);
    let rec = seq_io::fastq::OwnedRecord { head: h[..hl].to_vec(), seq: s[..sl].to_vec(), qual: q[..sl].to_vec() };
    let mut st = Stream::new();
    let r = rec.serialize(&mut Ser(&mut st));
    vassert!(r.is_ok() && !st.bad, "C19 an owned FASTQ record serialises");
    let back = seq_io::fastq::OwnedRecord::deserialize(&mut De(&mut st));
    vassert!(back.is_ok(), "C19 a serialised owned FASTQ record deserialises");
    if let Ok(b) = &back {
        vassert!(eq2(&b.head, &h[..hl]) && eq2(&b.seq, &s[..sl]) && eq2(&b.qual, &q[..sl]), "C19 the deserialised owned FASTQ record equals the original");
    }
    cover!(hl == 1 && sl == 2, "one-byte header, two-byte sequence");
    std::mem::forget(back);
    std::mem::forget(rec);
}

/// FASTA record set with one live record and one stale position beyond `npos`
pub fn rset_fasta<N: Nd>(nd: &mut N) {
    let b = [nd.u8(), nd.u8(), nd.u8(), nd.u8()];
    let npos = nd.usize_in(0, 2);
    let (s0, p00, p01) = (nd.usize_in(0, 3), nd.usize_in(0, 4), nd.usize_in(0, 4));
    let (s1, p10) = (nd.usize_in(0, 3), nd.usize_in(0, 4));
    let mut v0 = Vec::with_capacity(2);
    v0.push(p00);
    v0.push(p01);
    let mut v1 = Vec::with_capacity(1);
    v1.push(p10);
    let mut pos = Vec::with_capacity(2);
    pos.push(seq_io::fasta::VerifBufPos::new(s0, v0));
    pos.push(seq_io::fasta::VerifBufPos::new(s1, v1));
    let rs = seq_io::fasta::RecordSet::verif_from_parts(b.to_vec(), pos, npos);
    let mut st = Stream::new();
    let r = rs.serialize(&mut Ser(&mut st));
    vassert!(r.is_ok() && !st.bad, "C19 a FASTA record set serialises");
    let back = seq_io::fasta::RecordSet::deserialize(&mut De(&mut st));
    vassert!(back.is_ok(), "C19 a serialised FASTA record set deserialises");
    if let Ok(x) = &back {
        vassert!(x.len() == npos, "C19 the deserialised record set has the same number of records");
        let xb = x.verif_buffer();
        vassert!(xb.len() == 4 && xb[0] == b[0] && xb[1] == b[1] && xb[2] == b[2] && xb[3] == b[3], "C19 the deserialised record set has the same buffer");
        vassert!(x.verif_positions_len() >= npos, "C19 the deserialised record set keeps the coordinates of its records");
        if npos >= 1 {
            let (s, p) = x.verif_pos(0);
            vassert!(s == s0 && p.len() == 2 && p[0] == p00 && p[1] == p01, "C19 first record coordinates survive");
        }
        if npos >= 2 {
            let (s, p) = x.verif_pos(1);
            vassert!(s == s1 && p.len() == 1 && p[0] == p10, "C19 second record coordinates survive");
        }
    }
    cover!(npos == 1, "one live record, one stale position");
    std::mem::forget(back);
    std::mem::forget(rs);
}

pub fn rset_fastq<N: Nd>(nd: &mut N) {
    let b = [nd.u8(), nd.u8(), nd.u8(), nd.u8()];
    let n = 2;
    let o = [nd.usize_in(0, 4), nd.usize_in(0, 4), nd.usize_in(0, 4), nd.usize_in(0, 4), nd.usize_in(0, 4)];
    let mut pos = Vec::with_capacity(2);
    if n >= 1 {
        pos.push(seq_io::fastq::VerifBufPos::new(o[0], o[1], o[2], o[3], o[4]));
    }
    if n >= 2 {
        pos.push(seq_io::fastq::VerifBufPos::new(o[4], o[3], o[2], o[1], o[0]));
    }
    let rs = seq_io::fastq::RecordSet::verif_from_parts(b.to_vec(), pos);
    let mut st = Stream::new();
    let r = rs.serialize(&mut Ser(&mut st));
    vassert!(r.is_ok() && !st.bad, "C19 a FASTQ record set serialises");
    let back = seq_io::fastq::RecordSet::deserialize(&mut De(&mut st));
    vassert!(back.is_ok(), "C19 a serialised FASTQ record set deserialises");
    if let Ok(x) = &back {
        vassert!(x.len() == n, "C19 the deserialised record set has the same number of records");
        let xb = x.verif_buffer();
        vassert!(xb.len() == 4 && xb[0] == b[0] && xb[1] == b[1] && xb[2] == b[2] && xb[3] == b[3], "C19 the deserialised record set has the same buffer");
        if n >= 1 {
            vassert!(x.verif_pos(0) == (o[0], o[1], o[2], o[3], o[4]), "C19 first record coordinates survive");
        }
        if n >= 2 {
            vassert!(x.verif_pos(1) == (o[4], o[3], o[2], o[1], o[0]), "C19 second record coordinates survive");
        }
    }
    cover!(n == 2, "two records");
    std::mem::forget(back);
    std::mem::forget(rs);
}

harnesses! {
    /// @meta props=C19 tier=quick kind=R timeout=1500 mem=16 unwind=8 bounds="fasta::OwnedRecord with a 2-byte header and a 1-byte sequence (arbitrary bytes) through the derive-generated Serialize/Deserialize and a flat u64-stream back end"
    c19_owned_fasta => owned_fasta;
    /// @meta props=C19 tier=quick kind=R timeout=1500 mem=16 unwind=8 bounds="fastq::OwnedRecord with a 1-byte header and 2-byte sequence and quality (arbitrary bytes)"
    c19_owned_fastq => owned_fastq;
    /// @meta props=C19 tier=quick kind=R timeout=1500 mem=16 unwind=8 bounds="fasta::RecordSet from parts: 4-byte buffer, two stored positions (2 and 1 line ends, arbitrary offsets), npos 0..=2 (stale positions beyond npos)"
    c19_rset_fasta => rset_fasta;
    /// @meta props=C19 tier=quick kind=R timeout=1500 mem=16 unwind=8 bounds="fastq::RecordSet from parts: 4-byte buffer, 2 positions with arbitrary offsets"
    c19_rset_fastq => rset_fastq;
}

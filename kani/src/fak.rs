//! FASTA kernels: one private transition function of the real reader, once, from a symbolic
//! state built with the hook constructor over a window of a fully symbolic small file.
//! (C01, C03, C05, C06, C17 for FASTA; assertion labels name the property they decide.)
use crate::fqk::{any_file, window};
use crate::nd::Nd;
use crate::spec::*;
use crate::src::*;
use buffer_redux::BufReader;
use seq_io::fasta::{self, Record};
use seq_io::policy::BufPolicy;
use seq_io::policy::StdPolicy;

pub struct FaState {
    pub start: usize,
    pub search_pos: usize,
    pub line: u64,
    pub byte: u64,
    pub state: u8,
}

pub fn fa_reader<const F: usize>(br: BufReader<Src<F>>, s: &FaState, seq_pos: Vec<usize>) -> fasta::Reader<Src<F>, StdPolicy> {
    fasta::Reader::verif_from_parts(br, StdPolicy, s.start, seq_pos, s.line, s.byte, s.search_pos, s.state)
}

/// the reader's line-end list equals the reference list shifted by the window offset
fn ends_match(got: &[usize], exp: &FaRec, off: usize, upto: usize) -> bool {
    // compares the first `upto` entries
    if got.len() < upto {
        return false;
    }
    let mut ok = true;
    let mut i = 0;
    while i < FA_MAXL {
        if i < upto && got[i] + off != exp.ends[i] {
            ok = false;
        }
        i += 1;
    }
    ok
}

/// K: `search` (= `_search` + end-of-input rule) from a header anywhere in a window that shows
/// the end of the input (capacity > bytes available)
pub fn k_search_eof<N: Nd, const F: usize>(nd: &mut N) {
    let file: [u8; F] = any_file::<N, F>(nd);
    let n = nd.usize_in(1, F);
    let off = nd.usize_in(0, n - 1);
    let h = nd.usize_in(off, n - 1);
    let line0 = nd.u64();
    nd.assume(line0 >= 1 && line0 < (1 << 40));
    nd.assume(file[h] == b'>');
    // after init the search starts one past '>', after a record or a seek at '>'
    let sp_plus = nd.bool();
    nd.note("format", b"fasta");
    nd.note("file", &file[h..n]);
    let f = &file[..n];
    let exp = fa_record(f, h);
    nd.assume(!exp.overflow);
    let br = window::<F>(Src::plain(file, n), F + 1, off);
    let st = FaState { start: h - off, search_pos: h - off + if sp_plus { 1 } else { 0 }, line: line0, byte: h as u64, state: 1 };
    let mut r = fa_reader(br, &st, Vec::with_capacity(8));
    let res = r.verif_search();
    match res {
        Ok(found) => {
            vassert!(found, "C01 with the end of the input in view every record is complete");
            vassert!(r.verif_start() == h - off, "C01 search does not move the record start");
            let sp = r.verif_seq_pos();
            vassert!(sp.len() == exp.nends, "C01 number of line ends of the record");
            vassert!(ends_match(sp, &exp, off, exp.nends), "C01 line ends of the record are exactly the line terminators up to the next header (or the end of input)");
            if exp.complete {
                vassert!(r.verif_search_pos() + off == exp.next, "C01 the next record starts at the first '>' that follows a line terminator");
                vassert!(r.verif_state() != 4, "C01 not finished while a further header exists");
            } else {
                vassert!(r.verif_state() == 4, "C01 finished after the last record");
                vassert!(r.verif_search_pos() + off == exp.ends[exp.nends - 1], "C01 the last record extends to the end of the input");
            }
            // C05: advancing the cursor by the record's extent gives the next record's coordinates
            r.verif_increment_record();
            if exp.complete {
                let (l, b) = r.verif_position();
                vassert!(b == exp.next as u64, "C05 byte offset advances by the record's extent");
                vassert!(l == line0 + exp.nends as u64, "C05 line number advances by the record's lines");
                vassert!(r.verif_start() + off == exp.next, "C05 buffer offset and file position denote the same byte");
            }
            cover!(exp.complete && exp.nends == 2, "complete record with one sequence line");
            cover!(!exp.complete && f[n - 1] != LF, "last record without final terminator");
            cover!(!exp.complete && f[n - 1] == LF && exp.nends == 1, "header only, terminated");
        }
        Err(e) => {
            vassert!(false, "C01 search does not fail");
            std::mem::forget(e);
        }
    }
    std::mem::forget(r);
}

/// K: `search` when the buffer is completely filled (more input may follow): a complete record
/// is found exactly when a line terminator followed by '>' lies inside the window, otherwise the
/// search is left resumable (Incomplete) with the last byte re-searched if it is a terminator
pub fn k_search_full<N: Nd, const F: usize, const CAP: usize>(nd: &mut N) {
    let file: [u8; F] = any_file::<N, F>(nd);
    // window = file[off .. off+CAP], completely filled
    let off = nd.usize_in(0, F - CAP);
    let h = nd.usize_in(off, off + CAP - 1);
    let line0 = nd.u64();
    nd.assume(line0 >= 1 && line0 < (1 << 40));
    nd.assume(file[h] == b'>');
    let sp_plus = nd.bool();
    nd.note("format", b"fasta");
    nd.note("file", &file[h..]);
    nd.note_num("cap", CAP as u64);
    let wend = off + CAP; // file offset one past the window
    let f = &file[..];
    let exp = fa_record(f, h);
    nd.assume(!exp.overflow);
    let br = window::<F>(Src::plain(file, F), CAP, off);
    let st = FaState { start: h - off, search_pos: h - off + if sp_plus { 1 } else { 0 }, line: line0, byte: h as u64, state: 1 };
    let mut r = fa_reader(br, &st, Vec::with_capacity(8));
    let res = r.verif_search();
    // the record is complete inside the window iff its next header lies inside the window
    let inside = exp.complete && exp.next < wend;
    match res {
        Ok(found) => {
            vassert!(found == inside, "C01 a record is complete exactly when the next header is inside the buffer");
            let sp = r.verif_seq_pos();
            if inside {
                vassert!(sp.len() == exp.nends, "C01 number of line ends of the record");
                vassert!(ends_match(sp, &exp, off, exp.nends), "C01 line ends of the record are exactly the line terminators up to the next header (or the end of input)");
                vassert!(r.verif_search_pos() + off == exp.next, "C01 the next record starts at the first '>' that follows a line terminator");
            } else {
                vassert!(r.verif_state() == 2, "C01 an unfinished record leaves the search resumable");
                // every terminator strictly before the last byte of the window is recorded
                let last_is_lf = f[wend - 1] == LF && wend - 1 > h;
                let nl = count_lf(f, h, wend - 1);
                vassert!(sp.len() == nl, "C01 resumable search keeps every line end seen so far (except a terminator in the last byte)");
                vassert!(ends_match(sp, &exp, off, nl), "C01 resumable search keeps the true line ends");
                vassert!(r.verif_search_pos() == if last_is_lf { CAP - 1 } else { CAP }, "C01 a terminator in the last byte of the buffer is searched again after the refill");
                cover!(last_is_lf, "terminator in the last byte");
            }
            cover!(inside, "complete record inside a full buffer");
        }
        Err(e) => {
            vassert!(false, "C01 search does not fail");
            std::mem::forget(e);
        }
    }
    std::mem::forget(r);
}

/// K: `make_room` keeps the content relative to the record and shifts every stored offset
pub fn k_make_room<N: Nd, const F: usize, const CAP: usize>(nd: &mut N) {
    let file: [u8; F] = any_file::<N, F>(nd);
    let off = nd.usize_in(0, F - CAP);
    let start = nd.usize_in(0, CAP - 1);
    let sp = nd.usize_in(start, CAP);
    // up to two recorded line ends inside [start, sp)
    let nq = nd.usize_in(0, 2);
    let q0 = nd.usize_in(start, CAP);
    let q1 = nd.usize_in(start, CAP);
    nd.assume(q0 < q1 && q1 < CAP);
    let mut v = Vec::with_capacity(8);
    if nq >= 1 {
        v.push(q0);
    }
    if nq >= 2 {
        v.push(q1);
    }
    let line0 = nd.u64();
    let byte0 = nd.u64();
    nd.assume(line0 < (1 << 40) && byte0 < (1 << 40));
    let br = window::<F>(Src::plain(file, F), CAP, off);
    let st = FaState { start, search_pos: sp, line: line0, byte: byte0, state: 2 };
    let mut r = fa_reader(br, &st, v);
    r.verif_make_room();
    vassert!(r.verif_start() == 0, "C03 compaction moves the unfinished record to the buffer start");
    vassert!(r.verif_search_pos() == sp - start, "C03 compaction shifts the search position");
    let s2 = r.verif_seq_pos();
    vassert!(s2.len() == nq, "C03 compaction keeps the recorded line ends");
    if nq >= 1 {
        vassert!(s2[0] == q0 - start, "C03 compaction shifts every recorded line end");
    }
    if nq >= 2 {
        vassert!(s2[1] == q1 - start, "C03 compaction shifts every recorded line end");
    }
    vassert!(r.verif_position() == (line0, byte0), "C03 compaction does not change the file position");
    let b = r.verif_buf_reader().buffer();
    vassert!(b.len() == CAP - start, "C03 compaction keeps all bytes of the unfinished record");
    let mut ok = true;
    let mut i = 0;
    while i < CAP {
        if i < b.len() && b[i] != file[off + start + i] {
            ok = false;
        }
        i += 1;
    }
    vassert!(ok, "C03 compaction keeps the content of the unfinished record");
    vassert!(r.verif_buf_reader().capacity() == CAP, "C09 compaction does not change the capacity");
    cover!(start > 0 && nq == 2, "shift with two line ends");
    std::mem::forget(r);
}

pub fn k_search_eof_f8<N: Nd>(nd: &mut N) {
    k_search_eof::<N, 8>(nd)
}
pub fn k_search_eof_f10<N: Nd>(nd: &mut N) {
    k_search_eof::<N, 10>(nd)
}
pub fn k_search_full_f10_c7<N: Nd>(nd: &mut N) {
    k_search_full::<N, 10, 7>(nd)
}
pub fn k_search_full_f8_c5<N: Nd>(nd: &mut N) {
    k_search_full::<N, 8, 5>(nd)
}
pub fn k_make_room_f8_c5<N: Nd>(nd: &mut N) {
    k_make_room::<N, 8, 5>(nd)
}

harnesses! {
    /// @meta props=C01,C05,C06,C04:t,C03:t tier=quick kind=K stage2=pub timeout=1500 mem=12 unwind=11 bounds="fasta::Reader::search (+increment_record) from a header at every offset of every window (every file offset) of every file <= 8 bytes with the end of input in view; <= 6 line ends per record"
    fak_search_eof_f8 => k_search_eof_f8;
    /// @meta props=C01,C06:t,C03:t tier=quick kind=K stage2=pub timeout=1500 mem=12 unwind=11 bounds="fasta::Reader::search on a completely filled buffer of capacity 5 at every offset of every 8-byte file: complete record vs resumable state, look-ahead byte"
    fak_search_full_f8_c5 => k_search_full_f8_c5;
    /// @meta props=C03,C06,C09:t tier=quick kind=K timeout=1500 mem=12 unwind=11 bounds="fasta::Reader::make_room on a full buffer of capacity 5 over every 8-byte file, every record start, search position and <= 2 recorded line ends"
    fak_make_room_f8_c5 => k_make_room_f8_c5;
    /// @meta props=C01:t,C05:t,C06:t tier=thorough kind=K stage2=pub timeout=5000 mem=30 unwind=13 bounds="as fak_search_eof_f8 with files <= 10 bytes"
    fak_search_eof_f10 => k_search_eof_f10;
    /// @meta props=C01:t,C06:t tier=thorough kind=K stage2=pub timeout=5000 mem=30 unwind=13 bounds="as fak_search_full_f8_c5 with capacity 7 over 10-byte files"
    fak_search_full_f10_c7 => k_search_full_f10_c7;
}

/// K: `init` (= `first_byte` + '>' validation) from `New`: skips leading blank lines across
/// refills; reports the first non-blank line
pub fn k_init<N: Nd, const F: usize, const CAP: usize, const FIXLEN: bool>(nd: &mut N) {
    let file: [u8; F] = any_file::<N, F>(nd);
    // FIXLEN: the file has exactly F bytes (one instance per length keeps the refill loop concrete)
    let n = if FIXLEN { F } else { nd.usize_in(0, F) };
    nd.note("format", b"fasta");
    nd.note("file", &file[..n]);
    nd.note_num("cap", CAP as u64);
    let f = &file[..n];
    let br = BufReader::with_capacity(CAP, Src::<F>::plain(file, n));
    let st = FaState { start: 0, search_pos: 0, line: 0, byte: 0, state: 0 };
    let mut r = fa_reader(br, &st, Vec::with_capacity(8));
    let res = r.verif_init();
    match fa_first(f) {
        FaFirst::Empty => {
            match res {
                Ok(found) => {
                    vassert!(!found, "C01 input of blank lines only has no record");
                    vassert!(r.verif_state() == 4, "C01 finished after blank-only input");
                }
                Err(e) => {
                    vassert!(false, "C01 no error for blank-only input");
                    std::mem::forget(e);
                }
            }
            cover!(n >= CAP + 1, "blank lines longer than the buffer");
        }
        FaFirst::Header { pos, line } => {
            match res {
                Ok(found) => {
                    vassert!(found, "C01 the first non-blank line starting with '>' starts the first record");
                    // file offset of the buffer start = bytes the source delivered - bytes buffered
                    let off = r.verif_buf_reader().get_ref().pos - r.verif_buf_reader().buffer().len();
                    vassert!(r.verif_start() + off == pos, "C01 the first record starts at the first non-blank line");
                    vassert!(r.verif_buf_reader().buffer()[r.verif_start()] == b'>', "C01 the record start is a '>'");
                    vassert!(r.verif_search_pos() == r.verif_start() + 1, "C01 the search starts after '>'");
                    let (l, b) = r.verif_position();
                    vassert!(b == pos as u64, "C05 byte offset of the first record");
                    vassert!(l == line, "C05 line number of the first record");
                    cover!(pos >= CAP, "first header beyond the first buffer fill");
                    cover!(pos > 0 && pos < CAP, "first header after blank lines inside the first fill");
                }
                Err(e) => {
                    vassert!(false, "C01 no error when the first non-blank line starts with '>'");
                    std::mem::forget(e);
                }
            }
        }
        FaFirst::Invalid { line, found } => {
            match res {
                Ok(_) => {
                    vassert!(false, "C01 a first non-blank line not starting with '>' is an invalid start");
                }
                Err(fasta::Error::InvalidStart { line: l, found: fd }) => {
                    vassert!(fd == found, "C17 invalid start reports the byte found");
                    vassert!(l as u64 == line, "C17 invalid start reports the true line of the first non-blank line");
                    vassert!(r.verif_state() == 4, "C01 the invalid-start error is terminal");
                    cover!(line >= 3, "invalid start after at least two blank lines");
                }
                Err(e) => {
                    vassert!(false, "C01 only an invalid-start error is possible here");
                    std::mem::forget(e);
                }
            }
        }
    }
    std::mem::forget(r);
}

pub fn k_init_f4_c3<N: Nd>(nd: &mut N) {
    k_init::<N, 4, 3, true>(nd)
}
pub fn k_init_f5_c3<N: Nd>(nd: &mut N) {
    k_init::<N, 5, 3, false>(nd)
}
pub fn k_init_f5_c4<N: Nd>(nd: &mut N) {
    k_init::<N, 5, 4, false>(nd)
}

harnesses! {
    @reg registry2;
    /// @meta props=C01,C17,C06,C05:t,C03:t tier=quick kind=K stage2=pub timeout=3000 mem=28 unwind=6 unwindset="first_byte:6;seq_io::fill_buf:4" bounds="fasta::Reader::init from New on every file of exactly 4 bytes at capacity 3 (blank prefix crossing one refill), whole reads"
    fak_init_f4_c3 => k_init_f4_c3;
    /// @meta props=C01,C05,C17,C03,C06 tier=thorough kind=K stage2=pub timeout=3000 mem=16 unwind=8 unwindset="first_byte:7;seq_io::fill_buf:4" bounds="fasta::Reader::init from New on every file <= 5 bytes at capacity 3 (blank prefix crossing up to 2 refills), whole reads"
    fak_init_f5_c3 => k_init_f5_c3;
    /// @meta props=C01,C05,C17,C03,C06 tier=thorough kind=K stage2=pub timeout=1500 mem=12 unwind=8 unwindset="first_byte:6;seq_io::fill_buf:4" bounds="fasta::Reader::init from New on every file <= 5 bytes at capacity 4, whole reads"
    fak_init_f5_c4 => k_init_f5_c4;
}

/// K: `seek` — inside the window by offset arithmetic, outside by repositioning the source and
/// refilling; afterwards the reader is `Positioned` on the target with an empty line-end list
pub fn k_seek<N: Nd, const F: usize, const CAP: usize>(nd: &mut N) {
    let file: [u8; F] = any_file::<N, F>(nd);
    let n = nd.usize_in(0, F);
    let off = nd.usize_in(0, n);
    let p = nd.usize_in(off, n);
    nd.assume(p - off <= CAP);
    let target = nd.usize_in(0, n);
    let tline = nd.u64();
    let line0 = nd.u64();
    nd.assume(line0 < (1 << 40) && tline < (1 << 40));
    let state = nd.u8_in(1, 4);
    let sp = nd.usize_in(0, CAP);
    nd.note("format", b"fasta");
    nd.note("file", &file[..n]);
    nd.note_num("cap", CAP as u64);
    nd.note_num("seek_target_byte", target as u64);
    let mut v = Vec::with_capacity(8);
    if nd.bool() {
        v.push(nd.usize_in(0, CAP));
    }
    let st = FaState { start: p - off, search_pos: sp, line: line0, byte: p as u64, state };
    let mut src = Src::<F>::chunked(nd, file, n);
    src.chunk[0] = 0;
    let br = window::<F>(src, CAP, off);
    let blen = br.buffer().len();
    nd.assume(p - off <= blen && sp <= blen);
    let mut r = fa_reader(br, &st, v);
    let res = r.seek(&fasta::Position::new(tline, target as u64));
    vassert!(res.is_ok(), "C05 seeking to a position inside the input succeeds");
    std::mem::forget(res);
    vassert!(r.verif_state() == 3, "C05 after a seek the reader is positioned on the target");
    vassert!(r.verif_seq_pos().is_empty(), "C05 a seek discards the line ends of the previous record");
    vassert!(r.verif_position() == (tline, target as u64), "C05 the reported position is the seek target");
    let inside = target >= off && target < off + blen;
    let b = r.verif_buf_reader().buffer();
    if inside {
        vassert!(r.verif_start() == target - off, "C05 in-buffer seek: the buffer offset denotes the target byte");
        vassert!(r.verif_search_pos() == target - off, "C05 in-buffer seek: the search restarts at the target");
        vassert!(b.len() == blen, "C05 in-buffer seek keeps the buffer");
        cover!(target > p, "forward seek inside the buffer");
        cover!(target < p, "backward seek inside the buffer");
    } else {
        vassert!(r.verif_start() == 0 && r.verif_search_pos() == 0, "C05 out-of-buffer seek: the target is at the buffer start");
        let want = if target + CAP < n { CAP } else { n - target };
        vassert!(b.len() == want, "C05 out-of-buffer seek refills the buffer from the target");
        let mut ok = true;
        let mut i = 0;
        while i < CAP {
            if i < b.len() && b[i] != file[target + i] {
                ok = false;
            }
            i += 1;
        }
        vassert!(ok, "C05 out-of-buffer seek: the buffer holds the input from the target on");
        cover!(target >= off + blen, "seek beyond the buffer");
        cover!(target < off, "seek before the buffer");
    }
    std::mem::forget(r);
}

pub fn k_seek_f8_c4<N: Nd>(nd: &mut N) {
    k_seek::<N, 8, 4>(nd)
}

harnesses! {
    @reg registry3;
    /// @meta props=C05,C04,C06:t tier=quick kind=K stage2=pub timeout=1500 mem=12 unwind=10 unwindset="seq_io::fill_buf:8" bounds="fasta::Reader::seek (source delivering symbolic chunks) from every state, every window (capacity 4, every file offset) of every file <= 8 bytes to every target byte 0..=n (in-buffer shortcut and real seek + refill)"
    fak_seek_f8_c4 => k_seek_f8_c4;
}

/// K: `resume_incomplete_search` from an unfinished record in a completely filled buffer:
/// compaction is preferred over growth, growth happens only when the record does not fit, an
/// exact-count batch (make_room == false) never moves the buffer, and the record found afterwards
/// is the reference record
pub fn k_resume<N: Nd, const F: usize, const CAP: usize>(nd: &mut N) {
    use crate::c09::RecPolicy;
    let file: [u8; F] = any_file::<N, F>(nd);
    let n = nd.usize_in(CAP, F);
    let h = nd.usize_in(0, CAP - 1);
    let make_room = nd.bool();
    nd.assume(file[h] == b'>');
    nd.note("format", b"fasta");
    nd.note("file", &file[h..n]);
    nd.note_num("cap", CAP as u64);
    let f = &file[..n];
    let exp = fa_record(f, h);
    nd.assume(!exp.overflow);
    // the record is not complete inside the first window (that is why the search is resumed)
    nd.assume(!(exp.complete && exp.next < CAP));
    // state as `search` leaves it on the full window file[0..CAP]
    let last_is_lf = f[CAP - 1] == LF && CAP - 1 > h;
    let mut v = Vec::with_capacity(8);
    let mut i = 0;
    while i < FA_MAXL {
        if i < exp.nends && exp.ends[i] < CAP - 1 {
            v.push(exp.ends[i]);
        }
        i += 1;
    }
    let st = FaState { start: h, search_pos: if last_is_lf { CAP - 1 } else { CAP }, line: 1, byte: h as u64, state: 2 };
    let br = window::<F>(Src::plain(file, n), CAP, 0);
    let pol = RecPolicy { answer: Some(2 * CAP), asked: 0, n: 0 };
    let mut r = fasta::Reader::verif_from_parts(br, pol, st.start, v, st.line, st.byte, st.search_pos, st.state);
    let res = r.verif_resume_incomplete_search(make_room);
    // bytes needed to see the whole record: up to and including the next header byte, or one more
    // than the rest of the input (the end of input is recognised by a buffer that is not full)
    let needed = if exp.complete { exp.next - h + 1 } else { n - h + 1 };
    let asked = r.policy().n;
    match res {
        Ok(found) => {
            vassert!(found, "C01 after a refill the record is complete");
            if make_room && needed <= CAP {
                vassert!(asked == 0, "C09 the policy is not consulted when the record fits after compaction");
                vassert!(r.verif_buf_reader().capacity() == CAP, "C09 no growth when the record fits");
            }
            if asked > 0 {
                vassert!(r.policy().asked == CAP, "C09 the policy is asked with the current capacity");
            }
            if !make_room {
                vassert!(r.verif_start() == h, "C04 an exact-count batch never moves the buffer under the records it already holds");
                let b = r.verif_buf_reader().buffer();
                let mut ok = true;
                let mut j = 0;
                while j < CAP {
                    if b[j] != file[j] {
                        ok = false;
                    }
                    j += 1;
                }
                vassert!(ok, "C04 an exact-count batch keeps the buffered bytes in place");
            }
            let off = h - r.verif_start();
            let sp = r.verif_seq_pos();
            vassert!(sp.len() == exp.nends && ends_match(sp, &exp, off, exp.nends), "C01 the record found after the refill has exactly the reference line ends");
            cover!(make_room && h > 0 && asked == 0, "compaction sufficed");
            cover!(make_room && asked > 0, "growth after compaction");
            cover!(!make_room, "exact-count batch");
        }
        Err(e) => {
            vassert!(false, "C01 no error with a permitting policy");
            std::mem::forget(e);
        }
    }
    std::mem::forget(r);
}

pub fn k_resume_f8_c4<N: Nd>(nd: &mut N) {
    k_resume::<N, 8, 4>(nd)
}

// not registered: the solver exhausts 24 GB on this kernel (grow -> realloc of the real buffer-redux inside the loop)
#[cfg(not(kani))]
pub fn registry4() -> Vec<(&'static str, fn(&mut crate::nd::TapeNd))> {
    vec![]
}

//! C11 — FASTQ writing round-trips; unchanged writing reproduces the input bytes.
use crate::c10::{same, Exp, OUT};
use crate::nd::Nd;
use crate::recs::*;
use crate::spec::*;
use crate::util::{ok, Sink};
use seq_io::fastq;

const MH: usize = 2;
const MS: usize = 3;

fn clean(b: u8) -> bool {
    b != LF && b != CR
}

/// reference parse (spec.rs) of `out`: exactly one valid record with these fields
fn parses_back(out: &[u8], head: &[u8], seq: &[u8], qual: &[u8]) -> bool {
    let g = fq_group(out, 0);
    let v = fq_verdict_g(out, 0, &g);
    if !(v.record && !v.invalid_start && !v.invalid_sep && !v.unequal) {
        return false;
    }
    if g.next != out.len() {
        return false;
    }
    let (ha, hb) = fq_head(out, &g);
    let (sa, sb) = fq_line(out, &g, 1);
    let (qa, qb) = fq_line(out, &g, 3);
    crate::fqk::same(head, out, (ha, hb)) && crate::fqk::same(seq, out, (sa, sb)) && crate::fqk::same(qual, out, (qa, qb))
}

pub fn write_fields<N: Nd>(nd: &mut N) {
    use fastq::Record;
    let h = [nd.u8(), nd.u8()];
    let hl = nd.usize_in(0, MH);
    nd.assume(h[0] != LF && h[1] != LF);
    if hl > 0 {
        nd.assume(h[hl - 1] != CR);
    }
    let s = [nd.u8(), nd.u8(), nd.u8()];
    let q = [nd.u8(), nd.u8(), nd.u8()];
    let sl = nd.usize_in(0, MS);
    nd.assume(clean(s[0]) && clean(s[1]) && clean(s[2]) && clean(q[0]) && clean(q[1]) && clean(q[2]));
    let (head, seq, qual) = (&h[..hl], &s[..sl], &q[..sl]);
    nd.note("head", head);
    nd.note("seq", seq);
    nd.note("qual", qual);
    let mut e = Exp::new();
    e.push(b'@');
    e.extend(head);
    e.push(LF);
    e.extend(seq);
    e.push(LF);
    e.push(b'+');
    e.push(LF);
    e.extend(qual);
    e.push(LF);
    let mut w = Sink::<OUT>::new();
    ok(fastq::write_to(&mut w, head, seq, qual));
    vassert!(same(&w, &e), "C11 write_to layout");
    vassert!(parses_back(&w.buf[..w.len], head, seq, qual), "C11 write_to round trip");
    // id / description parts
    let has_desc = nd.bool();
    let cut = nd.usize_in(0, hl);
    if !has_desc {
        nd.assume(cut == hl);
    }
    let mut e2 = Exp::new();
    e2.push(b'@');
    e2.extend(&h[..cut]);
    if has_desc {
        e2.push(b' ');
        e2.extend(&h[cut..hl]);
    }
    e2.push(LF);
    e2.extend(seq);
    e2.push(LF);
    e2.push(b'+');
    e2.push(LF);
    e2.extend(qual);
    e2.push(LF);
    let mut w2 = Sink::<OUT>::new();
    ok(fastq::write_parts(&mut w2, &h[..cut], if has_desc { Some(&h[cut..hl]) } else { None }, seq, qual));
    vassert!(same(&w2, &e2), "C11 write_parts layout");
    // record method
    let rec = fastq::OwnedRecord { head: head.to_vec(), seq: seq.to_vec(), qual: qual.to_vec() };
    let mut w3 = Sink::<OUT>::new();
    ok(rec.write(&mut w3));
    vassert!(same(&w3, &e), "C11 OwnedRecord::write layout");
    std::mem::forget(rec);
    cover!(sl == 0, "empty sequence and quality");
    cover!(has_desc && cut == hl, "empty description present");
    cover!(sl == MS && hl == MH, "maximal sizes");
}

/// RefRecord::write and write_unchanged on a valid record from parts
pub fn fq_unchanged<N: Nd>(nd: &mut N) {
    use fastq::Record;
    let parts = any_fq_record(nd, true);
    let bp = parts.bufpos();
    let rec = bp.record(parts.buffer());
    // unchanged: the record's original bytes, plus the final terminator if it was missing
    let mut w = Sink::<OUT>::new();
    ok(rec.write_unchanged(&mut w));
    let n = parts.pos1 - parts.pos0;
    vassert!(!w.overflow && w.len == n + 1, "C11 write_unchanged writes the record's bytes and one terminator");
    let mut good = true;
    let mut i = 0;
    while i < QB {
        if i < n && w.buf[i] != parts.buf[parts.pos0 + i] {
            good = false;
        }
        i += 1;
    }
    vassert!(good && w.buf[n] == LF, "C11 write_unchanged reproduces the original bytes, line endings included");
    // field-wise writing parses back to the same fields
    let mut w2 = Sink::<OUT>::new();
    ok(rec.write(&mut w2));
    let (ha, hb) = parts.head();
    let (sa, sb) = parts.seq_r();
    let (qa, qb) = parts.qual_r();
    // only for headers that are inside the quantifier (no CR at the end after trimming)
    if !(hb > ha && parts.buf[hb - 1] == CR) && !(sb > sa && parts.buf[sb - 1] == CR) && !(qb > qa && parts.buf[qb - 1] == CR) {
        vassert!(!w2.overflow && parses_back(&w2.buf[..w2.len], &parts.buf[ha..hb], &parts.buf[sa..sb], &parts.buf[qa..qb]), "C11 RefRecord::write round trip");
    }
    cover!(parts.pos1 == parts.blen, "record without final terminator");
    cover!(parts.buf[parts.seq - 2] == CR && parts.seq >= parts.pos0 + 2, "CRLF header line");
    std::mem::forget(bp);
}

/// FASTA write_unchanged on a record from parts
pub fn fa_unchanged<N: Nd, const L: usize>(nd: &mut N) {
    let parts = any_fa_record_l(nd, L);
    let bp = parts.bufpos();
    let rec = bp.record(parts.buffer());
    let mut w = Sink::<OUT>::new();
    ok(rec.write_unchanged(&mut w));
    let last = parts.last();
    let n = last - parts.start;
    let ends_lf = parts.buf[last - 1] == LF;
    vassert!(!w.overflow && w.len == if ends_lf { n } else { n + 1 }, "C11 FASTA write_unchanged writes the record's bytes and a final terminator if missing");
    let mut good = true;
    let mut i = 0;
    while i < FB {
        if i < n && w.buf[i] != parts.buf[parts.start + i] {
            good = false;
        }
        i += 1;
    }
    vassert!(good && w.buf[w.len - 1] == LF, "C11 FASTA write_unchanged reproduces the original bytes");
    // re-parse (reference): same header, same sequence
    let out = &w.buf[..w.len];
    let (ha, hb) = parts.line(0);
    let mut it = FaLines::new(out, 0, out.len());
    let h2 = it.next();
    vassert!(h2.is_some() && crate::fqk::same(&parts.buf[ha..hb], out, h2.unwrap()), "C11 FASTA write_unchanged re-parses to the same header");
    std::mem::forget(bp);
    cover!(L >= 2 && !ends_lf, "terminator added");
}

pub fn fa_unchanged_l2<N: Nd>(nd: &mut N) {
    fa_unchanged::<N, 2>(nd)
}
pub fn fa_unchanged_l3<N: Nd>(nd: &mut N) {
    fa_unchanged::<N, 3>(nd)
}

harnesses! {
    /// @meta props=C11 tier=quick kind=R timeout=1500 mem=12 unwind=18 bounds="write_to / write_parts / OwnedRecord::write: header <= 2 bytes (split at every point), sequence = quality length <= 3, all byte values allowed by the quantifier"
    c11_write_fields => write_fields;
    /// @meta props=C11 tier=quick kind=R timeout=1500 mem=12 unwind=18 bounds="RefRecord::write_unchanged / write on every valid FASTQ record from parts in a buffer <= 10 bytes (LF, CRLF, with and without final terminator)"
    c11_fq_unchanged => fq_unchanged;
    /// @meta props=C11 tier=quick kind=R timeout=1500 mem=12 unwind=18 bounds="FASTA RefRecord::write_unchanged on records from parts: buffer <= 8 bytes, 1 sequence line"
    c11_fa_unchanged_l2 => fa_unchanged_l2;
    /// @meta props=C11 tier=quick kind=R timeout=1500 mem=12 unwind=18 bounds="FASTA RefRecord::write_unchanged on records from parts: buffer <= 8 bytes, 2 sequence lines"
    c11_fa_unchanged_l3 => fa_unchanged_l3;
}

//! S harnesses: one public call (`next`, `read_record_set_exact`) from a hook-built state.
//! `get_error_pos` (id extraction: split/position loops, from_utf8_lossy, String) is stubbed by
//! a function that keeps the line arithmetic and drops the id; the real function is covered by
//! `misc_err_id` and the kernels.
use crate::fqk::*;
use crate::nd::Nd;
use crate::spec::*;
use crate::src::*;
use seq_io::fastq::{self, Record};
use seq_io::policy::BufPolicy;

pub fn stub_get_error_pos<R: std::io::Read, P: BufPolicy>(r: &fastq::Reader<R, P>, line_offset: u64, _parse_id: bool) -> fastq::ErrorPosition {
    fastq::ErrorPosition { line: r.verif_position().0 + line_offset, id: None }
}

/// next() from Positioned/Parsing at a symbolic record start, end of input in view
pub fn fq_next_eof<N: Nd, const F: usize>(nd: &mut N) {
    let file: [u8; F] = any_file::<N, F>(nd);
    let c = any_cursor::<N, F>(nd, false);
    nd.note("format", b"fastq");
    nd.note("file", &file[c.p..c.n]);
    let f = &file[..c.n];
    let g = fq_group(f, c.p);
    let v = fq_verdict_g(f, c.p, &g);
    let br = window::<F>(Src::plain(file, c.n), F + 1, 0);
    let st = FqState { pos0: c.p, pos1: 0, seq: 0, sep: 0, qual: 0, inc: 0, line: c.line0, byte: c.p as u64, state: 2 };
    let mut r = fq_reader(br, &st);
    let res = r.next();
    match res {
        None => {
            vassert!(v.end, "C02 end of input only when no further group (or a blank tail) remains");
            vassert!(r.verif_state() == 3, "C02 end of input is final");
        }
        Some(Ok(rec)) => {
            check_record(&rec, f, &g, &v);
            let pos = r.position();
            vassert!(pos.byte() == c.p as u64 && pos.line() == c.line0, "C05 position of the returned record");
            cover!(g.lfs == 3, "last record without terminator");
            cover!(g.lfs == 4, "terminated record");
        }
        Some(Err(e)) => {
            check_error(&e, f, c.p, c.line0, &g, &v);
            vassert!(r.verif_state() == 3, "C02 a format error is terminal");
            cover!(matches!(e, fastq::Error::UnexpectedEnd { .. }), "truncated record");
            std::mem::forget(e);
        }
    }
    std::mem::forget(r);
}

pub fn fq_next_eof_f9<N: Nd>(nd: &mut N) {
    fq_next_eof::<N, 9>(nd)
}

harnesses! {
    /// @meta props=C02,C05,C17,C06 tier=thorough kind=S stage2=pub timeout=3000 mem=24 unwind=12 unwindset="resume_incomplete_search:2;seq_io::fill_buf:3" bounds="fastq next() from Positioned at every record start of every file <= 9 bytes with the end of input in view (capacity 10); get_error_pos stubbed (line arithmetic kept, id dropped)"
    #[kani::stub(seq_io::fastq::Reader::get_error_pos, crate::snext::stub_get_error_pos)]
    snext_fq_eof_f9 => fq_next_eof_f9;
}

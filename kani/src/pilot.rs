//! Experiments that located what exhausts the solver on the composed resume kernels
//! (tier=pilot: never part of a registered check; results in DESIGN §13.8):
//!   p3  real FASTA resume call, line-end vector concretely empty            -> 23 s
//!   p4  same, vector filled by pushes under a symbolic condition             -> > 14 GB (killed)
//!   p6  same, vector filled by a fixed number of pushes + one set_len        -> 47 s
//!   p14 as p6 plus reading the entries back (ends_match)                     -> > 11 GB (killed)
//!       => the number of pre-recorded line ends is a constant per registered instance (K)
//!   q5-q7 FASTQ: make_room, fill_buf, search_incomplete, check_end through the hooks -> 40-190 s,
//!       while the real fastq `resume_incomplete_search` exhausts 20-44 GB
use crate::fak::*;
use crate::fqk::{any_file, window};
use crate::nd::Nd;
use crate::spec::*;
use crate::src::*;
use seq_io::fasta;

/// P3: the resume call itself, line-end vector concretely empty
pub fn p3<N: Nd>(nd: &mut N) {
    use crate::c09::RecPolicy;
    const F: usize = 6;
    const CAP: usize = 3;
    let (h, n, c1) = (2usize, 6usize, 1usize);
    let file: [u8; F] = any_file::<N, F>(nd);
    nd.assume(file[h] == b'>');
    let f = &file[..n];
    let exp = fa_record(f, h);
    nd.assume(!exp.overflow);
    let st = FaState { start: h, search_pos: if f[CAP - 1] == LF { CAP - 1 } else { CAP }, line: 1, byte: h as u64, state: 2 };
    let mut src = Src::<F>::plain(file, n);
    src.chunk[1] = c1;
    let br = window::<F>(src, CAP, 0);
    let pol = RecPolicy { answer: None, asked: 0, n: 0 };
    let mut r = fasta::Reader::verif_from_parts(br, pol, st.start, Vec::with_capacity(8), st.line, st.byte, st.search_pos, st.state);
    let res = r.verif_resume_incomplete_search(true);
    if let Ok(found) = res {
        let needed = if exp.complete { exp.next - h + 1 } else { n - h + 1 };
        if needed <= CAP {
            vassert!(found, "X00 found");
            let sp = r.verif_seq_pos();
            vassert!(sp.len() == exp.nends, "X00 number of ends");
        }
    }
    cover!(true, "reached");
    std::mem::forget(res);
    std::mem::forget(r);
}

/// P4 (conditional pushes): the resume call itself, line-end vector concretely empty
pub fn p4<N: Nd>(nd: &mut N) {
    use crate::c09::RecPolicy;
    const F: usize = 6;
    const CAP: usize = 3;
    let (h, n, c1) = (2usize, 6usize, 1usize);
    let file: [u8; F] = any_file::<N, F>(nd);
    nd.assume(file[h] == b'>');
    let f = &file[..n];
    let exp = fa_record(f, h);
    nd.assume(!exp.overflow);
    let st = FaState { start: h, search_pos: if f[CAP - 1] == LF { CAP - 1 } else { CAP }, line: 1, byte: h as u64, state: 2 };
    let mut src = Src::<F>::plain(file, n);
    src.chunk[1] = c1;
    let br = window::<F>(src, CAP, 0);
    let pol = RecPolicy { answer: None, asked: 0, n: 0 };
    let mut v = Vec::with_capacity(8);
    let mut i = 0;
    while i < FA_MAXL {
        if i < exp.nends && exp.ends[i] < CAP - 1 {
            v.push(exp.ends[i]);
        }
        i += 1;
    }
    let mut r = fasta::Reader::verif_from_parts(br, pol, st.start, v, st.line, st.byte, st.search_pos, st.state);
    let res = r.verif_resume_incomplete_search(true);
    if let Ok(found) = res {
        let needed = if exp.complete { exp.next - h + 1 } else { n - h + 1 };
        if needed <= CAP {
            vassert!(found, "X00 found");
            let sp = r.verif_seq_pos();
            vassert!(sp.len() == exp.nends, "X00 number of ends");
        }
    }
    cover!(true, "reached");
    std::mem::forget(res);
    std::mem::forget(r);
}

/// P6 (fixed pushes + set_len): the resume call itself, line-end vector concretely empty
pub fn p6<N: Nd>(nd: &mut N) {
    use crate::c09::RecPolicy;
    const F: usize = 6;
    const CAP: usize = 3;
    let (h, n, c1) = (2usize, 6usize, 1usize);
    let file: [u8; F] = any_file::<N, F>(nd);
    nd.assume(file[h] == b'>');
    let f = &file[..n];
    let exp = fa_record(f, h);
    nd.assume(!exp.overflow);
    let st = FaState { start: h, search_pos: if f[CAP - 1] == LF { CAP - 1 } else { CAP }, line: 1, byte: h as u64, state: 2 };
    let mut src = Src::<F>::plain(file, n);
    src.chunk[1] = c1;
    let br = window::<F>(src, CAP, 0);
    let pol = RecPolicy { answer: None, asked: 0, n: 0 };
    let mut v = Vec::with_capacity(8);
    let mut i = 0;
    let mut k = 0;
    while i < FA_MAXL {
        if i < CAP {
            v.push(exp.ends[i]);
        }
        if i < exp.nends && exp.ends[i] < CAP - 1 {
            k += 1;
        }
        i += 1;
    }
    unsafe { v.set_len(k) };
    let mut r = fasta::Reader::verif_from_parts(br, pol, st.start, v, st.line, st.byte, st.search_pos, st.state);
    let res = r.verif_resume_incomplete_search(true);
    if let Ok(found) = res {
        let needed = if exp.complete { exp.next - h + 1 } else { n - h + 1 };
        if needed <= CAP {
            vassert!(found, "X00 found");
            let sp = r.verif_seq_pos();
            vassert!(sp.len() == exp.nends, "X00 number of ends");
        }
    }
    cover!(true, "reached");
    std::mem::forget(res);
    std::mem::forget(r);
}

/// p14: the resume call itself, line-end vector concretely empty
pub fn p14<N: Nd>(nd: &mut N) {
    use crate::c09::RecPolicy;
    const F: usize = 6;
    const CAP: usize = 3;
    let (h, n, c1) = (2usize, 6usize, 1usize);
    let file: [u8; F] = any_file::<N, F>(nd);
    nd.assume(file[h] == b'>');
    let f = &file[..n];
    let exp = fa_record(f, h);
    nd.assume(!exp.overflow);
    let st = FaState { start: h, search_pos: if f[CAP - 1] == LF { CAP - 1 } else { CAP }, line: 1, byte: h as u64, state: 2 };
    let mut src = Src::<F>::plain(file, n);
    src.chunk[1] = c1;
    let br = window::<F>(src, CAP, 0);
    let pol = RecPolicy { answer: None, asked: 0, n: 0 };
    let mut v = Vec::with_capacity(8);
    let mut i = 0;
    let mut k = 0;
    while i < FA_MAXL {
        if i < CAP {
            v.push(exp.ends[i]);
        }
        if i < exp.nends && exp.ends[i] < CAP - 1 {
            k += 1;
        }
        i += 1;
    }
    unsafe { v.set_len(k) };
    let mut r = fasta::Reader::verif_from_parts(br, pol, st.start, v, st.line, st.byte, st.search_pos, st.state);
    let res = r.verif_resume_incomplete_search(true);
    if let Ok(found) = res {
        let needed = if exp.complete { exp.next - h + 1 } else { n - h + 1 };
        if needed <= CAP {
            vassert!(found, "X00 found");
            let sp = r.verif_seq_pos();
            vassert!(sp.len() == exp.nends && ends_match_pub(sp, &exp, h, exp.nends), "X00 ends");
        }
    }
    cover!(true, "reached");
    std::mem::forget(res);
    std::mem::forget(r);
}


use crate::fqk::*;
use seq_io::fastq;
/// Q5..Q7: the pieces of the FASTQ resume path called one after the other through the hooks
pub fn q_seq<N: Nd, const STEPS: usize>(nd: &mut N) {
    const F: usize = 7;
    const CAP: usize = 4;
    let file: [u8; F] = any_file::<N, F>(nd);
    let n = nd.usize_in(CAP, F);
    let p = nd.usize_in(1, CAP - 1);
    let c1 = nd.usize_in(0, CAP - 1);
    let f = &file[..n];
    let g = fq_group(f, p);
    let lfs_in = count_lf(f, p, CAP);
    nd.assume(lfs_in < 4);
    let mut src = Src::<F>::plain(file, n);
    src.chunk[1] = c1;
    let br = window::<F>(src, CAP, 0);
    let pol = crate::c09::RecPolicy { answer: None, asked: 0, n: 0 };
    let mut r = fastq::Reader::verif_from_parts(br, pol, fastq::VerifBufPos::new(p, 0, if lfs_in >= 1 { g.starts[1] } else { 0 }, if lfs_in >= 2 { g.starts[2] } else { 0 }, if lfs_in >= 3 { g.starts[3] } else { 0 }), 0, 1, p as u64, 1);
    r.verif_make_room((lfs_in + 1) as u8);
    let x = seq_io::verif_fill_buf(r.verif_buf_reader_mut());
    std::mem::forget(x);
    vassert!(r.verif_buf_pos().0 == 0, "X00 moved");
    if STEPS >= 2 {
        let res = r.verif_search_incomplete((lfs_in + 1) as u8);
        if let Ok(inc) = &res {
            vassert!(*inc != Some(0), "X00 inc");
            if STEPS >= 3 {
                if let Some(i) = inc {
                    let e = r.verif_check_end(*i);
                    vassert!(e.is_ok() || e.is_err(), "X00 e");
                    std::mem::forget(e);
                }
            }
        }
        std::mem::forget(res);
    }
    cover!(true, "reached");
    std::mem::forget(r);
}
pub fn q5<N: Nd>(nd: &mut N) { q_seq::<N, 1>(nd) }
pub fn q6<N: Nd>(nd: &mut N) { q_seq::<N, 2>(nd) }
pub fn q7<N: Nd>(nd: &mut N) { q_seq::<N, 3>(nd) }
harnesses! {
    /// @meta props=X00 tier=pilot kind=K timeout=900 mem=16 unwind=9 unwindset="_resume_incomplete_search:2;seq_io::fill_buf:5" bounds="pilot"
    pilot_p3 => p3;
    /// @meta props=X00 tier=pilot kind=K timeout=900 mem=16 unwind=9 unwindset="_resume_incomplete_search:2;seq_io::fill_buf:5" bounds="pilot"
    pilot_p4 => p4;
    /// @meta props=X00 tier=pilot kind=K timeout=900 mem=14 unwind=10 unwindset="seq_io::fill_buf:6" bounds="pilot"
    #[kani::stub(std::string::String::from_utf8_lossy, crate::src::stub_lossy_empty)]
    pilot_q7 => q7;
    /// @meta props=X00 tier=pilot kind=K timeout=900 mem=14 unwind=10 unwindset="seq_io::fill_buf:6" bounds="pilot"
    #[kani::stub(std::string::String::from_utf8_lossy, crate::src::stub_lossy_empty)]
    pilot_q6 => q6;
    /// @meta props=X00 tier=pilot kind=K timeout=900 mem=14 unwind=10 unwindset="seq_io::fill_buf:6" bounds="pilot"
    #[kani::stub(std::string::String::from_utf8_lossy, crate::src::stub_lossy_empty)]
    pilot_q5 => q5;
    /// @meta props=X00 tier=pilot kind=K timeout=900 mem=16 unwind=9 unwindset="_resume_incomplete_search:2;seq_io::fill_buf:5" bounds="pilot"
    pilot_p14 => p14;
    /// @meta props=X00 tier=pilot kind=K timeout=900 mem=16 unwind=9 unwindset="_resume_incomplete_search:2;seq_io::fill_buf:5" bounds="pilot"
    pilot_p6 => p6;
}

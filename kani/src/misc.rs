//! Smaller obligations: record sets from parts (C04, C20), post-end / post-error calls (C06),
//! failing seeks (C14), error id (C17).
use crate::fak::{fa_reader, FaState};
use crate::fqk::*;
use crate::nd::Nd;
use crate::recs::*;
use crate::spec::*;
use crate::src::*;
use seq_io::{fasta, fastq};

/// FASTA record set from parts: iteration yields exactly `npos` records with the contents of
/// the stored offsets; stale offsets beyond `npos` are hidden; size hints bracket; fused
pub fn fa_rset_iter<N: Nd>(nd: &mut N) {
    use fasta::Record;
    let a = any_fa_record_l(nd, 2);
    // second (possibly stale) position: any offsets inside the buffer, only used if npos == 2
    let b_start = nd.usize_in(0, FB);
    let b_p0 = nd.usize_in(0, FB);
    let b_p1 = nd.usize_in(0, FB);
    let npos = nd.usize_in(0, 2);
    let valid_b = b_start < b_p0 && b_p0 < b_p1 && b_p1 <= a.blen;
    nd.assume(npos < 2 || valid_b);
    let mut vb = Vec::with_capacity(2);
    vb.push(b_p0);
    vb.push(b_p1);
    let mut pos = Vec::with_capacity(2);
    pos.push(a.bufpos());
    pos.push(fasta::VerifBufPos::new(b_start, vb));
    let mut data = Vec::with_capacity(FB);
    let mut i = 0;
    while i < FB {
        if i < a.blen {
            data.push(a.buf[i]);
        }
        i += 1;
    }
    let rset = fasta::RecordSet::verif_from_parts(data, pos, npos);
    vassert!(rset.len() == npos && rset.is_empty() == (npos == 0), "C04 the record set reports the number of records of the last batch");
    let mut it = (&rset).into_iter();
    let (lo, hi) = it.size_hint();
    vassert!(lo <= npos && hi.map_or(true, |h| h >= npos), "C20 size hint of the record-set iterator brackets the number of records");
    let r0 = it.next();
    vassert!(r0.is_some() == (npos >= 1), "C04 a refilled record set contains only the records of the last batch (first)");
    if let Some(r) = r0 {
        let (ha, hb) = a.line(0);
        vassert!(crate::fqk::same(r.head(), &a.buf, (ha, hb)), "C04 records of a set have the content of the stored coordinates");
        vassert!(r.num_seq_lines() == 1, "C04 records of a set have the lines of the stored coordinates");
    }
    let r1 = it.next();
    vassert!(r1.is_some() == (npos >= 2), "C04 stale coordinates beyond the batch length stay hidden");
    let r2 = it.next();
    vassert!(r2.is_none(), "C20 the record-set iterator ends after the last record");
    let r3 = it.next();
    vassert!(r3.is_none(), "C20 the record-set iterator keeps reporting the end");
    cover!(npos == 1, "one live record, one stale");
    std::mem::forget(rset);
}

/// FASTQ record set from parts
pub fn fq_rset_iter<N: Nd, const NP: usize>(nd: &mut N) {
    use fastq::Record;
    let a = any_fq_record(nd, true);
    let npos = NP;
    let mut pos = Vec::with_capacity(2);
    if npos >= 1 {
        pos.push(a.bufpos());
    }
    if npos >= 2 {
        pos.push(a.bufpos());
    }
    let mut data = Vec::with_capacity(QB);
    let mut i = 0;
    while i < QB {
        if i < a.blen {
            data.push(a.buf[i]);
        }
        i += 1;
    }
    let rset = fastq::RecordSet::verif_from_parts(data, pos);
    vassert!(rset.len() == npos && rset.is_empty() == (npos == 0), "C04 the record set reports the number of records of the last batch");
    let mut it = (&rset).into_iter();
    let (lo, hi) = it.size_hint();
    vassert!(lo <= npos && hi.map_or(true, |h| h >= npos), "C20 size hint of the record-set iterator brackets the number of records");
    let mut cnt = 0;
    let mut k = 0;
    while k < 4 {
        match it.next() {
            Some(r) => {
                vassert!(cnt < npos, "C04 no more records than the batch holds");
                vassert!(crate::fqk::same(r.seq(), &a.buf, a.seq_r()), "C04 records of a set have the content of the stored coordinates");
                cnt += 1;
            }
            None => {
                vassert!(cnt == npos, "C20 the record-set iterator yields every record before reporting the end");
            }
        }
        k += 1;
    }
    cover!(cnt == NP, "all records iterated");
    std::mem::forget(rset);
}

pub fn fq_rset_iter_1<N: Nd>(nd: &mut N) {
    fq_rset_iter::<N, 1>(nd)
}
pub fn fq_rset_iter_2<N: Nd>(nd: &mut N) {
    fq_rset_iter::<N, 2>(nd)
}

/// C06/C20: every kind of read after the end of input (state Finished, arbitrary stale
/// coordinates) reports end of input, without touching the coordinates
pub fn post_end<N: Nd, const F: usize, const CAP: usize>(nd: &mut N) {
    let file: [u8; F] = any_file::<N, F>(nd);
    let fq = FqState {
        pos0: nd.usize(),
        pos1: nd.usize(),
        seq: nd.usize(),
        sep: nd.usize(),
        qual: nd.usize(),
        inc: 0,
        line: nd.u64(),
        byte: nd.u64(),
        state: 3,
    };
    let br = window::<F>(Src::plain(file, F), CAP, 0);
    let mut r = fq_reader(br, &fq);
    let a = r.next();
    vassert!(a.is_none(), "C06 reading after the end of input reports end of input (fastq next)");
    std::mem::forget(a);
    let mut rs = fastq::RecordSet::default();
    let b = r.read_record_set(&mut rs);
    vassert!(b.is_none(), "C06 reading after the end of input reports end of input (fastq record set)");
    std::mem::forget(b);
    let c = r.read_record_set_exact(&mut rs, Some(2));
    vassert!(c.is_none(), "C06 reading after the end of input reports end of input (fastq exact record set)");
    std::mem::forget(c);
    let d = r.records().next();
    vassert!(d.is_none(), "C20 the owned-record iterator keeps reporting the end (fastq)");
    std::mem::forget(d);
    let d2 = r.records().next();
    vassert!(d2.is_none(), "C20 the owned-record iterator keeps reporting the end (fastq, again)");
    std::mem::forget(d2);
    std::mem::forget(r);
    // fasta
    let fa = FaState { start: nd.usize(), search_pos: nd.usize(), line: nd.u64(), byte: nd.u64(), state: 4 };
    let br = window::<F>(Src::plain(file, F), CAP, 0);
    let mut v = Vec::with_capacity(2);
    if nd.bool() {
        v.push(nd.usize());
    }
    let mut r = fa_reader(br, &fa, v);
    let a = r.next();
    vassert!(a.is_none(), "C06 reading after the end of input reports end of input (fasta next)");
    std::mem::forget(a);
    let mut rs = fasta::RecordSet::default();
    let b = r.read_record_set(&mut rs);
    vassert!(b.is_none(), "C06 reading after the end of input reports end of input (fasta record set)");
    std::mem::forget(b);
    let c = r.read_record_set_exact(&mut rs, Some(2));
    vassert!(c.is_none(), "C06 reading after the end of input reports end of input (fasta exact record set)");
    std::mem::forget(c);
    let d = r.records().next();
    vassert!(d.is_none(), "C20 the owned-record iterator keeps reporting the end (fasta)");
    std::mem::forget(d);
    let mut it = r.into_records();
    let e = it.next();
    let e2 = it.next();
    vassert!(e.is_none() && e2.is_none(), "C20 the owning record iterator keeps reporting the end (fasta)");
    std::mem::forget(e);
    std::mem::forget(e2);
    cover!(true, "reached");
    std::mem::forget(it);
}

/// C14: a failing seek of the source is returned by seek() with its kind, and a failure of the
/// refill after the seek likewise
pub fn seek_fault<N: Nd, const F: usize, const CAP: usize>(nd: &mut N) {
    let file: [u8; F] = any_file::<N, F>(nd);
    let kind = nd.u8_in(0, 3);
    let fail_seek = nd.bool();
    nd.note_num("fault_kind", kind as u64);
    // window = file[0..CAP]; target beyond the window forces a real seek
    let target = nd.usize_in(CAP, F);
    let mut src = Src::<F>::plain(file, F);
    src.fault_kind = kind;
    let br = window::<F>(src, CAP, 0);
    let fq = FqState { pos0: 0, pos1: 0, seq: 0, sep: 0, qual: 0, inc: 0, line: 1, byte: 0, state: 1 };
    let mut r = fq_reader(br, &fq);
    if fail_seek {
        r.verif_buf_reader_mut().get_mut().seek_fault = true;
    } else {
        // the read that refills after the seek fails
        let c = r.verif_buf_reader().get_ref().calls;
        r.verif_buf_reader_mut().get_mut().fault_at = c;
    }
    let res = r.seek(&fastq::Position::new(1, target as u64));
    match res {
        Ok(()) => {
            vassert!(false, "C14 an error of the source during a seek is never swallowed (fastq)");
        }
        Err(fastq::Error::Io(e)) => {
            vassert!(e.kind() == kind_of(kind), "C14 the error kind of the source is preserved by seek (fastq)");
            std::mem::forget(e);
        }
        Err(e) => {
            vassert!(false, "C14 a source error is not turned into a format error (fastq)");
            std::mem::forget(e);
        }
    }
    std::mem::forget(r);
    // fasta
    let mut src = Src::<F>::plain(file, F);
    src.fault_kind = kind;
    let br = window::<F>(src, CAP, 0);
    let fa = FaState { start: 0, search_pos: 0, line: 1, byte: 0, state: 1 };
    let mut r = fa_reader(br, &fa, Vec::with_capacity(2));
    if fail_seek {
        r.verif_buf_reader_mut().get_mut().seek_fault = true;
    } else {
        let c = r.verif_buf_reader().get_ref().calls;
        r.verif_buf_reader_mut().get_mut().fault_at = c;
    }
    let res = r.seek(&fasta::Position::new(1, target as u64));
    match res {
        Ok(()) => {
            vassert!(false, "C14 an error of the source during a seek is never swallowed (fasta)");
        }
        Err(fasta::Error::Io(e)) => {
            vassert!(e.kind() == kind_of(kind), "C14 the error kind of the source is preserved by seek (fasta)");
            std::mem::forget(e);
        }
        Err(e) => {
            vassert!(false, "C14 a source error is not turned into a format error (fasta)");
            std::mem::forget(e);
        }
    }
    cover!(fail_seek, "seek itself fails");
    cover!(!fail_seek, "refill after the seek fails");
    std::mem::forget(r);
}

/// stand-in for `String::from_utf8_lossy` under the ASCII assumption: the bytes as they are
pub fn stub_lossy_ascii(v: &[u8]) -> std::borrow::Cow<'_, str> {
    std::borrow::Cow::Borrowed(unsafe { std::str::from_utf8_unchecked(v) })
}

/// C17: the id carried by a format error is the id of the offending record (ASCII ids)
pub fn err_id<N: Nd, const F: usize>(nd: &mut N) {
    let file: [u8; F] = any_file::<N, F>(nd);
    let n = nd.usize_in(0, F);
    let p = nd.usize_in(0, n);
    let mut i = 0;
    while i < F {
        nd.assume(file[i] < 0x80);
        i += 1;
    }
    nd.note("format", b"fastq");
    nd.note("file", &file[p..n]);
    let f = &file[..n];
    let g = fq_group(f, p);
    nd.assume(g.lfs >= 1);
    // coordinates of a complete or partial group as the search leaves them
    let st = FqState {
        pos0: p,
        pos1: if g.lfs == 4 { g.ends[3] } else { 0 },
        seq: g.starts[1],
        sep: if g.lfs >= 2 { g.starts[2] } else { 0 },
        qual: if g.lfs >= 3 { g.starts[3] } else { 0 },
        inc: 0,
        line: 1,
        byte: p as u64,
        state: 1,
    };
    let br = window::<F>(Src::plain(file, n), F + 1, 0);
    let r = fq_reader(br, &st);
    let ep = r.verif_get_error_pos(0, true);
    // reference id: header line without its first byte, up to the first space
    let (ha, hb) = fq_head(f, &g);
    let mut ide = ha;
    let mut found = false;
    i = 0;
    while i < F {
        if ha + i < hb && !found {
            if f[ha + i] == b' ' {
                found = true;
            } else {
                ide = ha + i + 1;
            }
        }
        i += 1;
    }
    if let Some(id) = &ep.id {
        vassert!(crate::fqk::same(id.as_bytes(), f, (ha, ide)), "C17 the id given with an error is the id of the offending record");
        cover!(id.len() == 2, "two-byte id");
    }
    vassert!(ep.line == 1, "C17 the error line is the header line plus the given offset");
    std::mem::forget(ep);
    std::mem::forget(r);
}

pub fn post_end_f4<N: Nd>(nd: &mut N) {
    post_end::<N, 4, 4>(nd)
}
pub fn seek_fault_f6_c3<N: Nd>(nd: &mut N) {
    seek_fault::<N, 6, 3>(nd)
}
pub fn err_id_f8<N: Nd>(nd: &mut N) {
    err_id::<N, 8>(nd)
}

harnesses! {
    /// @meta props=C04,C20 tier=quick kind=R timeout=1500 mem=12 unwind=10 bounds="FASTA RecordSet from parts: buffer <= 8 bytes, one live single-line record + one (possibly stale) position, npos 0..=2"
    misc_fa_rset_iter => fa_rset_iter;
    /// @meta props=C04,C20 tier=quick kind=R timeout=1500 mem=12 unwind=12 bounds="FASTQ RecordSet from parts: buffer <= 10 bytes, 1 position of a valid record"
    misc_fq_rset_iter_1 => fq_rset_iter_1;
    /// @meta props=C04,C20 tier=thorough kind=R timeout=1500 mem=16 unwind=12 bounds="FASTQ RecordSet from parts: buffer <= 10 bytes, 2 positions of a valid record"
    misc_fq_rset_iter_2 => fq_rset_iter_2;
    /// @meta props=C06,C20,C04:t tier=quick kind=S timeout=1500 mem=12 unwind=6 bounds="both readers in the finished state with arbitrary stale coordinates (full 64-bit), window of 4 bytes: next, read_record_set, read_record_set_exact(2), records(), into_records()"
    misc_post_end => post_end_f4;
    /// @meta props=C14,C05:t tier=quick kind=S timeout=1500 mem=12 unwind=8 unwindset="seq_io::fill_buf:3" bounds="seek() of both readers to every target beyond a 3-byte window of a 6-byte file, the source failing in seek or in the following read with any of 4 error kinds"
    misc_seek_fault => seek_fault_f6_c3;
    /// @meta props=C17 tier=quick kind=K timeout=1500 mem=12 unwind=10 bounds="fastq::Reader::get_error_pos on every group start of every ASCII file <= 8 bytes (from_utf8_lossy stubbed by the identity on ASCII)"
    #[kani::stub(std::string::String::from_utf8_lossy, crate::misc::stub_lossy_ascii)]
    misc_err_id => err_id_f8;
}

#!/bin/bash
# mut_eval_par.sh <id> : evaluate one seeded change in its own scratch worktree (VERIF_REPO), leaving /repo untouched
id=$1; prop=${id%%-*}
wt=/tmp/wt/ev_$id
cd /repo && git worktree remove --force $wt 2>/dev/null; git worktree add -q --detach $wt HEAD || exit 9
cd $wt && git apply /verif/seeded/$id/patch.diff || { echo "$id PATCH-FAILED"; cd /repo; git worktree remove --force $wt; exit 9; }
s=$(date +%s)
cd /verif
if [[ "$prop" =~ ^C(07|08|15|16)$ ]]; then
  out=$(E3_REPO=$wt python3-vt e3/check_par.py $prop --tier quick 2>&1); rc=$?
else
  out=$(VERIF_REPO=$wt python3 check.py $prop --tier ${TIER:-quick} --jobs ${JOBS:-4} 2>&1); rc=$?
fi
v=$(echo "$out" | grep -E "^VIOLATION" | head -2 | tr '\n' ' ')
h=$(echo "$out" | grep -E "harness=|query:" | head -1 | cut -c1-260)
echo "$id prop=$prop rc=$rc $(( $(date +%s) - s ))s | $v | $h | $(echo "$out" | grep -E 'INCONCLUSIVE|BROKEN|NOTE' | head -2 | cut -c1-200 | tr '\n' ' ')"
mkdir -p /verif/.work/logs; echo "$out" > /verif/.work/logs/mut_$id.out
tag=$(python3 -c "import hashlib;print(hashlib.sha1('$wt'.encode()).hexdigest()[:8])")
rm -rf /verif/.work/alt-$tag
cd /repo && git worktree remove --force $wt

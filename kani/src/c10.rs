//! C10 — FASTA writing round-trips and wraps at the requested width.
//! R harnesses: the real writer functions on fully symbolic small data; the output is compared
//! byte for byte with the layout reference and parsed back with a single-pass reference parser.
use crate::nd::Nd;
use crate::spec::{CR, LF};
use crate::util::{ok, Sink};
use seq_io::fasta::{self, Record};

pub const MAXHEAD: usize = 2;
pub const MAXSEQ: usize = 5;
pub const OUT: usize = 16;

/// header: no LF, not ending in CR
pub fn any_head<N: Nd>(nd: &mut N) -> ([u8; MAXHEAD], usize) {
    let h = [nd.u8(), nd.u8()];
    let len = nd.usize_in(0, MAXHEAD);
    nd.assume(h[0] != LF && h[1] != LF);
    if len > 0 {
        nd.assume(h[len - 1] != CR);
    }
    nd.note("head", &h[..len]);
    (h, len)
}

fn seq_byte_ok(b: u8) -> bool {
    b != LF && b != CR && b != b'>'
}

/// sequence: no LF, CR or '>'
pub fn any_seq<N: Nd>(nd: &mut N) -> ([u8; MAXSEQ], usize) {
    let s = [nd.u8(), nd.u8(), nd.u8(), nd.u8(), nd.u8()];
    let len = nd.usize_in(0, MAXSEQ);
    nd.assume(seq_byte_ok(s[0]) && seq_byte_ok(s[1]) && seq_byte_ok(s[2]) && seq_byte_ok(s[3]) && seq_byte_ok(s[4]));
    nd.note("seq", &s[..len]);
    (s, len)
}

pub struct Exp {
    pub buf: [u8; OUT],
    pub len: usize,
}
impl Exp {
    pub fn new() -> Self {
        Exp { buf: [0; OUT], len: 0 }
    }
    pub fn push(&mut self, b: u8) {
        self.buf[self.len] = b;
        self.len += 1;
    }
    pub fn extend(&mut self, s: &[u8]) {
        let n = s.len();
        let mut i = 0;
        while i < crate::util::MAXW {
            if i < n {
                self.buf[self.len + i] = s[i];
            }
            i += 1;
        }
        self.len += n;
    }
}

/// output == expectation (single fixed-length pass)
pub fn same(w: &Sink<OUT>, e: &Exp) -> bool {
    if w.overflow || w.len != e.len {
        return false;
    }
    let mut ok = true;
    let mut i = 0;
    while i < OUT {
        if i < e.len && w.buf[i] != e.buf[i] {
            ok = false;
        }
        i += 1;
    }
    ok
}

/// layout reference of a wrapped sequence block for a non-empty sequence (no division)
fn exp_wrapped(e: &mut Exp, seq: &[u8; MAXSEQ], sl: usize, wrap: usize) {
    let mut col = 0;
    let mut i = 0;
    while i < MAXSEQ {
        if i < sl {
            if col == wrap {
                e.push(LF);
                col = 0;
            }
            e.push(seq[i]);
            col += 1;
        }
        i += 1;
    }
    e.push(LF);
}

/// Single-pass reference parse of `out` as one FASTA record: header line = '>' head,
/// following lines concatenated (terminators removed, one CR trimmed per line) = seq,
/// no second header line. Returns true iff it parses to exactly (head, seq).
pub fn parses_back(out: &[u8; OUT], n: usize, head: &[u8], seq: &[u8]) -> bool {
    if n == 0 || out[0] != b'>' {
        return false;
    }
    let mut ok = true;
    let mut in_head = true;
    let mut k = 0usize; // index into head resp. seq
    let mut line_start = true;
    let mut i = 1;
    while i < OUT {
        if i < n {
            let c = out[i];
            let cr_before_lf = c == CR && (i + 1 == n || out[i + 1] == LF);
            if c == LF {
                if in_head {
                    if k != head.len() {
                        ok = false;
                    }
                    in_head = false;
                    k = 0;
                }
                line_start = true;
            } else if cr_before_lf {
                // trimmed
                line_start = false;
            } else {
                if !in_head && line_start && c == b'>' {
                    ok = false; // a second record would start here
                }
                line_start = false;
                if in_head {
                    if k >= head.len() || head[k] != c {
                        ok = false;
                    }
                } else if k >= seq.len() || seq[k] != c {
                    ok = false;
                }
                k += 1;
            }
        }
        i += 1;
    }
    if in_head {
        ok && k == head.len() && seq.is_empty()
    } else {
        ok && k == seq.len()
    }
}

/// wrapped block `buf[from..n]`: every line but the last has exactly `wrap` bytes, the last
/// 1..=wrap, every line terminated
fn wrap_shape_ok(buf: &[u8; OUT], from: usize, n: usize, wrap: usize) -> bool {
    let mut ok = true;
    let mut col = 0usize;
    let mut i = 0;
    while i < OUT {
        if i >= from && i < n {
            if buf[i] == LF {
                let last = i + 1 == n;
                if last {
                    if col < 1 || col > wrap {
                        ok = false;
                    }
                } else if col != wrap {
                    ok = false;
                }
                col = 0;
            } else {
                col += 1;
            }
        }
        i += 1;
    }
    ok && (n == from || buf[n - 1] == LF)
}

pub fn write_plain<N: Nd>(nd: &mut N) {
    let (h, hl) = any_head(nd);
    let (s, sl) = any_seq(nd);
    let (head, seq) = (&h[..hl], &s[..sl]);
    let mut e = Exp::new();
    e.push(b'>');
    e.extend(head);
    e.push(LF);
    e.extend(seq);
    e.push(LF);

    let mut w = Sink::<OUT>::new();
    ok(fasta::write_to(&mut w, head, seq));
    vassert!(same(&w, &e), "C10 write_to layout");
    vassert!(parses_back(&w.buf, w.len, head, seq), "C10 write_to round trip");

    let mut w2 = Sink::<OUT>::new();
    ok(fasta::write_head(&mut w2, head));
    ok(fasta::write_seq(&mut w2, seq));
    vassert!(same(&w2, &e), "C10 write_head + write_seq layout");
    cover!(sl == 0, "empty sequence");
    cover!(hl == 0, "empty header");
    cover!(sl == MAXSEQ && hl == MAXHEAD, "maximal sizes");
}

pub fn write_owned<N: Nd>(nd: &mut N) {
    let (h, hl) = any_head(nd);
    let (s, sl) = any_seq(nd);
    let wrap = nd.usize_in(1, MAXSEQ + 1);
    nd.note_num("wrap", wrap as u64);
    let (head, seq) = (&h[..hl], &s[..sl]);
    let rec = fasta::OwnedRecord { head: head.to_vec(), seq: seq.to_vec() };
    let mut e = Exp::new();
    e.push(b'>');
    e.extend(head);
    e.push(LF);
    let mut e2 = Exp::new();
    e2.extend(&e.buf[..e.len]);
    e.extend(seq);
    e.push(LF);
    let mut w = Sink::<OUT>::new();
    ok(rec.write(&mut w));
    vassert!(same(&w, &e), "C10 OwnedRecord::write layout");
    if sl > 0 {
        exp_wrapped(&mut e2, &s, sl, wrap);
    }
    let mut w2 = Sink::<OUT>::new();
    ok(rec.write_wrap(&mut w2, wrap));
    vassert!(same(&w2, &e2), "C10 OwnedRecord::write_wrap layout");
    vassert!(parses_back(&w2.buf, w2.len, head, seq), "C10 OwnedRecord::write_wrap round trip");
    std::mem::forget(rec);
    cover!(sl > wrap, "more than one line");
}

pub fn write_id_desc<N: Nd>(nd: &mut N) {
    // header given as id / optional description
    let (h, hl) = any_head(nd);
    let (s, sl) = any_seq(nd);
    let has_desc = nd.bool();
    let cut = nd.usize_in(0, hl);
    let id = &h[..cut];
    let desc_bytes = &h[cut..hl];
    let desc = if has_desc { Some(desc_bytes) } else { None };
    let seq = &s[..sl];
    let wrap = nd.usize_in(1, MAXSEQ + 1);
    nd.note("id", id);
    nd.note("desc", if has_desc { desc_bytes } else { b"<none>" });
    nd.note_num("wrap", wrap as u64);
    // the header line must not end in CR
    if !has_desc && cut > 0 {
        nd.assume(h[cut - 1] != CR);
    }
    let mut e = Exp::new();
    e.push(b'>');
    e.extend(id);
    if has_desc {
        e.push(b' ');
        e.extend(desc_bytes);
    } else {
        nd.assume(cut == hl);
    }
    e.push(LF);
    let headlen = e.len;
    let mut full = [0u8; MAXHEAD + 1];
    let fl = headlen - 2;
    full[..fl].copy_from_slice(&e.buf[1..headlen - 1]);

    let mut w = Sink::<OUT>::new();
    ok(fasta::write_id_desc(&mut w, id, desc));
    vassert!(same(&w, &e), "C10 write_id_desc layout");

    let mut e1 = Exp::new();
    e1.extend(&e.buf[..e.len]);
    e1.extend(seq);
    e1.push(LF);
    let mut w1 = Sink::<OUT>::new();
    ok(fasta::write_parts(&mut w1, id, desc, seq));
    vassert!(same(&w1, &e1), "C10 write_parts layout");
    // round trip: the header that parses back is id [' ' desc]
    vassert!(parses_back(&w1.buf, w1.len, &full[..fl], seq), "C10 write_parts round trip");

    let mut e2 = Exp::new();
    e2.extend(&e.buf[..e.len]);
    if sl > 0 {
        exp_wrapped(&mut e2, &s, sl, wrap);
    }
    let mut w2 = Sink::<OUT>::new();
    ok(fasta::write_wrap(&mut w2, id, desc, seq, wrap));
    vassert!(same(&w2, &e2), "C10 write_wrap layout");
    vassert!(parses_back(&w2.buf, w2.len, &full[..fl], seq), "C10 write_wrap round trip");
    cover!(has_desc && cut == hl, "empty description present");
    cover!(has_desc && cut == 0, "empty id with description");
    cover!(!has_desc, "no description");
}

pub fn write_wrapped<N: Nd>(nd: &mut N) {
    let (s, sl) = any_seq(nd);
    let seq = &s[..sl];
    let wrap = nd.usize_in(1, MAXSEQ + 1);
    nd.note_num("wrap", wrap as u64);
    let mut e = Exp::new();
    if sl > 0 {
        exp_wrapped(&mut e, &s, sl, wrap);
    }
    let mut w = Sink::<OUT>::new();
    ok(fasta::write_wrap_seq(&mut w, seq, wrap));
    vassert!(same(&w, &e), "C10 write_wrap_seq layout");
    if sl > 0 {
        vassert!(wrap_shape_ok(&w.buf, 0, w.len, wrap), "C10 write_wrap_seq line widths");
    }
    cover!(sl > 0 && sl == 2 * wrap, "length multiple of wrap");
    cover!(sl > wrap && sl < 2 * wrap, "ragged last line");
    cover!(sl == 0, "empty sequence");
}

pub fn write_wrapped_iter<N: Nd>(nd: &mut N) {
    let (s, sl) = any_seq(nd);
    let seq = &s[..sl];
    let wrap = nd.usize_in(1, MAXSEQ + 1);
    let c1 = nd.usize_in(0, sl);
    let c2 = nd.usize_in(c1, sl);
    nd.note_num("wrap", wrap as u64);
    nd.note_num("cut1", c1 as u64);
    nd.note_num("cut2", c2 as u64);
    let chunks: [&[u8]; 3] = [&seq[..c1], &seq[c1..c2], &seq[c2..sl]];
    // chunked output == whole output (for a non-empty sequence == the wrapped layout)
    let mut e = Exp::new();
    if sl > 0 {
        exp_wrapped(&mut e, &s, sl, wrap);
    } else {
        e.push(LF);
    }
    let mut w = Sink::<OUT>::new();
    ok(fasta::write_wrap_seq_iter(&mut w, chunks, wrap));
    vassert!(same(&w, &e), "C10 write_wrap_seq_iter chunked == whole layout");
    if sl > 0 {
        vassert!(wrap_shape_ok(&w.buf, 0, w.len, wrap), "C10 write_wrap_seq_iter line widths");
    }
    // unwrapped iterator variant: concatenation + one terminator
    let mut e2 = Exp::new();
    e2.extend(seq);
    e2.push(LF);
    let mut w2 = Sink::<OUT>::new();
    ok(fasta::write_seq_iter(&mut w2, chunks.into_iter()));
    vassert!(same(&w2, &e2), "C10 write_seq_iter layout");
    cover!(c1 == c2 && c2 < sl, "empty middle chunk");
    cover!(c2 == sl && sl > 0 && sl == 2 * wrap, "empty last chunk after a full line");
    cover!(c1 > 0 && c1 == wrap && c1 < sl, "chunk ends exactly at a line end");
    cover!(sl == 0, "empty sequence");
}

harnesses! {
    /// @meta props=C10 tier=quick kind=R timeout=600 mem=10 bounds="header <= 2 bytes, sequence <= 5 bytes, all byte values allowed by the quantifier" unwind=18
    c10_write_plain => write_plain;
    /// @meta props=C10 tier=quick kind=R timeout=600 mem=10 bounds="OwnedRecord write / write_wrap: header <= 2, sequence <= 5, wrap 1..=6" unwind=18
    c10_write_owned => write_owned;
    /// @meta props=C10 tier=quick kind=R timeout=900 mem=10 bounds="id+description <= 2 bytes split at every point, description present/absent, sequence <= 5, wrap 1..=6" unwind=18
    c10_write_id_desc => write_id_desc;
    /// @meta props=C10 tier=quick kind=R timeout=600 mem=10 bounds="sequence <= 5 bytes, wrap 1..=6" unwind=18
    c10_write_wrapped => write_wrapped;
    /// @meta props=C10 tier=quick kind=R timeout=900 mem=10 bounds="sequence <= 5 bytes in 3 chunks at every pair of cut points (empty chunks included), wrap 1..=6" unwind=18
    c10_write_wrapped_iter => write_wrapped_iter;
}

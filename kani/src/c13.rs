//! C13 — all views of a record agree with each other (records from parts, both formats).
use crate::nd::Nd;
use crate::recs::*;
use crate::spec::{CR, LF};
use std::borrow::Cow;

fn same(a: &[u8], buf: &[u8], r: (usize, usize)) -> bool {
    if a.len() != r.1 - r.0 {
        return false;
    }
    let mut ok = true;
    let mut i = 0;
    while i < buf.len() {
        if i < a.len() && a[i] != buf[r.0 + i] {
            ok = false;
        }
        i += 1;
    }
    ok
}

fn eq(a: &[u8], b: &[u8]) -> bool {
    if a.len() != b.len() {
        return false;
    }
    let mut ok = true;
    let mut i = 0;
    while i < FB + 2 {
        if i < a.len() && a[i] != b[i] {
            ok = false;
        }
        i += 1;
    }
    ok
}

/// id / description split of a header against the bytes
fn check_id_desc(head: &[u8], id_bytes: &[u8], desc_bytes: Option<&[u8]>, both: (&[u8], Option<&[u8]>)) {
    // first space
    let mut sp = head.len();
    let mut i = 0;
    while i < FB + 2 {
        if i < head.len() && head[i] == b' ' && sp == head.len() {
            sp = i;
        }
        i += 1;
    }
    vassert!(eq(id_bytes, &head[..sp]), "C13 the id is the header up to the first space");
    if sp < head.len() {
        vassert!(desc_bytes.is_some() && eq(desc_bytes.unwrap(), &head[sp + 1..]), "C13 the description is the rest of the header after the first space");
    } else {
        vassert!(desc_bytes.is_none(), "C13 no description without a space");
    }
    vassert!(eq(both.0, id_bytes), "C13 id_desc_bytes agrees with id_bytes");
    vassert!(both.1.is_some() == desc_bytes.is_some(), "C13 id_desc_bytes agrees with desc_bytes");
    if let (Some(a), Some(b)) = (both.1, desc_bytes) {
        vassert!(eq(a, b), "C13 id_desc_bytes agrees with desc_bytes (content)");
    }
}

pub fn fa_views<N: Nd, const L: usize>(nd: &mut N) {
    use seq_io::fasta::Record;
    let parts = any_fa_record_l(nd, L);
    let bp = parts.bufpos();
    let rec = bp.record(parts.buffer());
    let nlines = L - 1;
    let buf = &parts.buf[..];
    vassert!(same(rec.head(), buf, parts.line(0)), "C13 head is the header line without '>' and terminator");
    vassert!(rec.num_seq_lines() == nlines, "C13 number of sequence lines");
    vassert!(rec.seq_lines().count() == nlines, "C13 forward count of the line iterator");
    vassert!(rec.seq_lines().rev().count() == nlines, "C13 backward count of the line iterator");
    // expected concatenation
    let mut cat = [0u8; FB];
    let mut cl = 0;
    let mut k = 1;
    while k < ML {
        if k <= nlines {
            let (a, b) = parts.line(k);
            let mut j = 0;
            while j < FB {
                if a + j < b {
                    cat[cl] = parts.buf[a + j];
                    cl += 1;
                }
                j += 1;
            }
        }
        k += 1;
    }
    let owned = rec.owned_seq();
    vassert!(eq(&owned, &cat[..cl]), "C13 owned_seq is the concatenation of the sequence lines");
    let full = rec.full_seq();
    vassert!(eq(&full, &cat[..cl]), "C13 full_seq is the concatenation of the sequence lines");
    vassert!(matches!(full, Cow::Borrowed(_)) == (nlines == 1), "C13 full_seq is borrowed exactly when there is a single line");
    let o = rec.to_owned_record();
    vassert!(eq(&o.seq, &cat[..cl]), "C13 the owned record has the same sequence");
    vassert!(same(&o.head, buf, parts.line(0)), "C13 the owned record has the same header");
    // raw sequence differs only by line terminators
    let raw = rec.seq();
    let mut ri = 0;
    let mut ok = true;
    let mut i = 0;
    while i < FB {
        if i < raw.len() {
            let c = raw[i];
            let is_term = c == LF || (c == CR && i + 1 < raw.len() && raw[i + 1] == LF);
            if !is_term {
                if ri >= cl || cat[ri] != c {
                    ok = false;
                }
                ri += 1;
            }
        }
        i += 1;
    }
    vassert!(ok && ri == cl, "C13 the raw sequence differs from the line concatenation only by line terminators");
    check_id_desc(rec.head(), rec.id_bytes(), rec.desc_bytes(), rec.id_desc_bytes());
    use seq_io::fasta::Record as R2;
    check_id_desc(R2::head(&o), o.id_bytes(), o.desc_bytes(), o.id_desc_bytes());
    cover!(L == 1 || cl >= 2, "sequence of at least two bytes (if there are lines)");
    std::mem::forget(owned);
    std::mem::forget(full);
    std::mem::forget(o);
    std::mem::forget(bp);
}

/// text accessors: succeed exactly when the bytes are valid UTF-8 and return the same bytes
pub fn fa_text<N: Nd>(nd: &mut N) {
    use seq_io::fasta::Record;
    let h = [nd.u8(), nd.u8(), nd.u8()];
    let hl = nd.usize_in(0, 3);
    nd.assume(h[0] != LF && h[1] != LF && h[2] != LF);
    nd.note("head", &h[..hl]);
    let o = seq_io::fasta::OwnedRecord { head: h[..hl].to_vec(), seq: Vec::new() };
    let idb = o.id_bytes();
    let id = o.id();
    vassert!(id.is_ok() == std::str::from_utf8(idb).is_ok(), "C13 id() succeeds exactly when the id bytes are valid UTF-8");
    if let Ok(s) = id {
        vassert!(eq(s.as_bytes(), idb), "C13 id() returns the id bytes");
    }
    let d = o.desc();
    let db = o.desc_bytes();
    vassert!(d.is_some() == db.is_some(), "C13 desc() is present exactly when desc_bytes() is");
    if let (Some(r), Some(b)) = (d, db) {
        vassert!(r.is_ok() == std::str::from_utf8(b).is_ok(), "C13 desc() succeeds exactly when the description bytes are valid UTF-8");
        if let Ok(s) = r {
            vassert!(eq(s.as_bytes(), b), "C13 desc() returns the description bytes");
        }
    }
    let both = o.id_desc();
    vassert!(both.is_ok() == std::str::from_utf8(&h[..hl]).is_ok(), "C13 id_desc() succeeds exactly when the header is valid UTF-8");
    if let Ok((i, dd)) = both {
        vassert!(eq(i.as_bytes(), idb), "C13 id_desc() returns the id bytes");
        vassert!(dd.is_some() == db.is_some(), "C13 id_desc() description presence");
        if let (Some(x), Some(y)) = (dd, db) {
            vassert!(eq(x.as_bytes(), y), "C13 id_desc() returns the description bytes");
        }
    }
    cover!(hl == 3 && o.id().is_err(), "invalid UTF-8 id");
    cover!(hl == 3 && h[0] >= 0xc0 && o.id().is_ok(), "multi-byte UTF-8 id");
    std::mem::forget(o);
}

pub fn fq_views<N: Nd>(nd: &mut N) {
    use seq_io::fastq::Record;
    let parts = any_fq_record(nd, true);
    let bp = parts.bufpos();
    let rec = bp.record(parts.buffer());
    let buf = &parts.buf[..];
    vassert!(same(rec.head(), buf, parts.head()), "C13 head is the header line without '@' and terminator");
    vassert!(same(rec.seq(), buf, parts.seq_r()), "C13 seq is the second line without terminator");
    vassert!(same(rec.qual(), buf, parts.qual_r()), "C13 qual is the fourth line without terminator");
    let o = rec.to_owned_record();
    vassert!(same(&o.head, buf, parts.head()), "C13 the owned record has the same header");
    vassert!(same(&o.seq, buf, parts.seq_r()), "C13 the owned record has the same sequence");
    vassert!(same(&o.qual, buf, parts.qual_r()), "C13 the owned record has the same quality");
    check_id_desc(rec.head(), rec.id_bytes(), rec.desc_bytes(), rec.id_desc_bytes());
    cover!(rec.seq().len() == 2, "two-byte sequence");
    cover!(parts.pos1 == parts.blen, "record without final terminator");
    std::mem::forget(o);
    std::mem::forget(bp);
}

pub fn fa_views_l1<N: Nd>(nd: &mut N) {
    fa_views::<N, 1>(nd)
}
pub fn fa_views_l2<N: Nd>(nd: &mut N) {
    fa_views::<N, 2>(nd)
}
pub fn fa_views_l3<N: Nd>(nd: &mut N) {
    fa_views::<N, 3>(nd)
}

harnesses! {
    /// @meta props=C13 tier=quick kind=R timeout=1500 mem=12 unwind=12 bounds="FASTA record from parts under the record invariant: buffer <= 8 symbolic bytes, 0 sequence lines; RefRecord, OwnedRecord"
    c13_fa_views_l1 => fa_views_l1;
    /// @meta props=C13 tier=quick kind=R timeout=1500 mem=12 unwind=12 bounds="FASTA record from parts: buffer <= 8 bytes, 1 sequence line"
    c13_fa_views_l2 => fa_views_l2;
    /// @meta props=C13:t tier=quick kind=R timeout=1500 mem=12 unwind=12 bounds="FASTA record from parts: buffer <= 8 bytes, 2 sequence lines"
    c13_fa_views_l3 => fa_views_l3;
    /// @meta props=C13:t tier=quick kind=R timeout=1500 mem=12 unwind=12 bounds="id()/desc()/id_desc() on every header of <= 3 arbitrary bytes (multi-byte UTF-8 prefixes included)"
    c13_fa_text => fa_text;
    /// @meta props=C13 tier=quick kind=R timeout=1500 mem=12 unwind=12 bounds="FASTQ record from parts under the record invariant: buffer <= 10 symbolic bytes, valid record; RefRecord, OwnedRecord"
    c13_fq_views => fq_views;
}

//! Small helpers shared by all harnesses.

/// printable rendering of bytes for replay files
pub fn show_bytes(b: &[u8]) -> String {
    let mut s = String::new();
    for &c in b {
        match c {
            b'\n' => s.push_str("\\n"),
            b'\r' => s.push_str("\\r"),
            b'\\' => s.push_str("\\\\"),
            0x20..=0x7e => s.push(c as char),
            _ => s.push_str(&format!("\\x{:02x}", c)),
        }
    }
    s
}

/// Compile-time focus (Kani builds): when the environment variable SV_FOCUS is set while the
/// harness crate is compiled, only assertions whose label starts with it stay active.  The driver
/// uses this to obtain a counterexample for the property it is deciding from a harness that
/// carries assertions of several properties.
pub const FOCUS: Option<&str> = option_env!("SV_FOCUS");

pub const fn focus_match(msg: &str) -> bool {
    match FOCUS {
        None => true,
        Some(f) => {
            let (m, f) = (msg.as_bytes(), f.as_bytes());
            if f.is_empty() {
                return true;
            }
            if m.len() < f.len() {
                return false;
            }
            let mut i = 0;
            while i < f.len() {
                if m[i] != f[i] {
                    return false;
                }
                i += 1;
            }
            true
        }
    }
}

/// run-time focus of the native replayer (environment variable SV_FOCUS at run time)
#[cfg(not(kani))]
pub fn focus_match_rt(msg: &str) -> bool {
    match std::env::var("SV_FOCUS") {
        Ok(f) if !f.is_empty() => msg.starts_with(&f),
        _ => true,
    }
}

/// property-labelled assertion: the label starts with the id of the property it decides
#[macro_export]
macro_rules! vassert {
    ($cond:expr, $msg:literal) => {{
        #[cfg(kani)]
        {
            const ACTIVE: bool = $crate::util::focus_match($msg);
            if ACTIVE {
                assert!($cond, $msg);
            }
        }
        #[cfg(not(kani))]
        {
            if $crate::util::focus_match_rt($msg) {
                assert!($cond, $msg);
            }
        }
    }};
}

/// Vacuity witness: `kani::cover!` under Kani, nothing natively.
#[macro_export]
macro_rules! cover {
    ($cond:expr, $msg:literal) => {
        #[cfg(kani)]
        kani::cover!($cond, $msg);
        #[cfg(not(kani))]
        {
            let _ = &$cond;
        }
    };
}

/// Declares harnesses: for every entry a `#[kani::proof]` under Kani and an
/// entry in the module's native `registry()`.
#[macro_export]
macro_rules! harnesses {
    (@reg $reg:ident; $( $(#[$m:meta])* $name:ident => $body:path ;)*) => {
        $(
            #[cfg(kani)]
            #[kani::proof]
            $(#[$m])*
            fn $name() {
                $body(&mut $crate::nd::KaniNd)
            }
        )*
        #[cfg(not(kani))]
        pub fn $reg() -> Vec<(&'static str, fn(&mut $crate::nd::TapeNd))> {
            vec![ $( (stringify!($name), { let f: fn(&mut $crate::nd::TapeNd) = $body; f }), )* ]
        }
    };
    ($( $(#[$m:meta])* $name:ident => $body:path ;)*) => {
        $(
            #[cfg(kani)]
            #[kani::proof]
            $(#[$m])*
            fn $name() {
                $body(&mut $crate::nd::KaniNd)
            }
        )*
        #[cfg(not(kani))]
        pub fn registry() -> Vec<(&'static str, fn(&mut $crate::nd::TapeNd))> {
            vec![ $( (stringify!($name), { let f: fn(&mut $crate::nd::TapeNd) = $body; f }), )* ]
        }
    };
}

/// largest single write the sink accepts
pub const MAXW: usize = 10;

/// fixed-size sink implementing io::Write without heap allocation
pub struct Sink<const N: usize> {
    pub buf: [u8; N],
    pub len: usize,
    pub overflow: bool,
}

impl<const N: usize> Sink<N> {
    pub fn new() -> Self {
        Sink {
            buf: [0; N],
            len: 0,
            overflow: false,
        }
    }
    pub fn bytes(&self) -> &[u8] {
        &self.buf[..self.len]
    }
}

impl<const N: usize> std::io::Write for Sink<N> {
    fn write(&mut self, data: &[u8]) -> std::io::Result<usize> {
        let n = data.len();
        if n <= N - self.len && n <= MAXW {
            // constant-bounded guarded byte copies: cheaper for the solver than a memcpy of
            // symbolic length at a symbolic offset, and no loop bound depends on the data
            let mut i = 0;
            while i < MAXW {
                if i < n {
                    self.buf[self.len + i] = data[i];
                }
                i += 1;
            }
            self.len += n;
        } else {
            self.overflow = true;
        }
        Ok(n)
    }
    fn write_all(&mut self, data: &[u8]) -> std::io::Result<()> {
        // overridden: the default implementation is a retry loop that the model checker would
        // have to unroll to the global bound at every call site
        let _ = self.write(data);
        Ok(())
    }
    fn flush(&mut self) -> std::io::Result<()> {
        Ok(())
    }
}

/// `r.unwrap()` without running the drop glue of io::Error
#[inline]
pub fn ok<T>(r: std::io::Result<T>) {
    assert!(r.is_ok(), "writer returned an error");
    std::mem::forget(r);
}

/// slice equality as an explicit loop (bounded by the caller's unwind)
pub fn eq(a: &[u8], b: &[u8]) -> bool {
    if a.len() != b.len() {
        return false;
    }
    let mut i = 0;
    while i < a.len() {
        if a[i] != b[i] {
            return false;
        }
        i += 1;
    }
    true
}

/// stand-in for `core::ptr::copy` (memmove) under Kani: a byte loop instead of CBMC's array copy,
/// whose constraints exhaust the solver's memory once the copied buffer is searched afterwards
pub unsafe fn byte_copy<T>(src: *const T, dst: *mut T, count: usize) {
    let n = count * core::mem::size_of::<T>();
    let s = src as *const u8;
    let d = dst as *mut u8;
    if (d as usize) <= (s as usize) {
        let mut i = 0;
        while i < n {
            *d.add(i) = *s.add(i);
            i += 1;
        }
    } else {
        let mut i = n;
        while i > 0 {
            i -= 1;
            *d.add(i) = *s.add(i);
        }
    }
}

/// stand-in for `std::alloc::realloc` under Kani: allocate, copy byte by byte, free (Kani's own
/// model copies with CBMC's array primitives, whose constraints exhaust the solver's memory once
/// the buffer is searched afterwards)
pub unsafe fn byte_realloc(ptr: *mut u8, layout: std::alloc::Layout, new_size: usize) -> *mut u8 {
    let new_layout = std::alloc::Layout::from_size_align_unchecked(new_size, layout.align());
    let new = std::alloc::alloc(new_layout);
    let n = if layout.size() < new_size { layout.size() } else { new_size };
    let mut i = 0;
    while i < n {
        *new.add(i) = *ptr.add(i);
        i += 1;
    }
    std::alloc::dealloc(ptr, layout);
    new
}

//! Harness library: every harness body is a generic function over `nd::Nd`, so the
//! same code is a Kani proof (symbolic inputs) and a native replay (concrete tape).
#![allow(clippy::all)]
#![allow(dead_code)]

pub mod nd;
#[macro_use]
pub mod util;
pub mod spec;
pub mod c09;
pub mod c10;
pub mod recs;
pub mod c20;
pub mod c13;
pub mod c11;
pub mod src;
pub mod fqk;
pub mod fak;
pub mod libk;
pub mod c12;
pub mod misc;
pub mod rsk;
pub mod pilot;
pub mod c18;
pub mod c19;

#[cfg(not(kani))]
pub fn registry() -> Vec<(&'static str, fn(&mut nd::TapeNd))> {
    let mut v = Vec::new();
    v.extend(c09::registry());
    v.extend(c09::registry2());
    v.extend(c10::registry());
    v.extend(c20::registry());
    v.extend(c13::registry());
    v.extend(c11::registry());
    v.extend(fqk::registry());
    v.extend(fak::registry());
    v.extend(fak::registry2());
    v.extend(fak::registry3());
    v.extend(fak::registry4());

    v.extend(fqk::registry2());
    v.extend(fqk::registry3());
    v.extend(libk::registry());
    v.extend(c12::registry());
    v.extend(misc::registry());
    v.extend(rsk::registry());
    v.extend(pilot::registry());
    v.extend(c18::registry());
    v.extend(c19::registry());
    v
}

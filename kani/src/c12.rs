//! C12 — LF and CRLF versions of a file parse identically.
//! Symbolic fields (free of CR/LF) are laid out with LF or CRLF endings, with or without a
//! final terminator, and the real search path must return exactly those fields for every
//! layout; hence any two layouts of the same fields parse identically.
use crate::fak::{fa_reader, FaState};
use crate::fqk::*;
use crate::nd::Nd;
use crate::spec::*;
use crate::src::*;
use seq_io::fasta;
use seq_io::fastq::Record;

const FQ: usize = 16;

fn clean(b: u8) -> bool {
    b != LF && b != CR
}

struct Lay<const M: usize> {
    buf: [u8; M],
    len: usize,
}
impl<const M: usize> Lay<M> {
    fn push(&mut self, b: u8) {
        self.buf[self.len] = b;
        self.len += 1;
    }
    fn eol(&mut self, crlf: bool) {
        if crlf {
            self.push(CR);
        }
        self.push(LF);
    }
}

/// FASTQ: one record, layout chosen by CRLF / TERM
pub fn fq_layout<N: Nd, const CRLF: bool, const TERM: bool>(nd: &mut N) {
    let h = nd.u8();
    let hl = nd.usize_in(0, 1);
    let s = [nd.u8(), nd.u8()];
    let q = [nd.u8(), nd.u8()];
    let sl = nd.usize_in(0, 2);
    nd.assume(clean(h) && clean(s[0]) && clean(s[1]) && clean(q[0]) && clean(q[1]));
    let line0 = nd.u64();
    nd.assume(line0 >= 1 && line0 < (1 << 40));
    let mut l = Lay::<FQ> { buf: [0; FQ], len: 0 };
    l.push(b'@');
    if hl == 1 {
        l.push(h);
    }
    l.eol(CRLF);
    let mut i = 0;
    while i < 2 {
        if i < sl {
            l.push(s[i]);
        }
        i += 1;
    }
    l.eol(CRLF);
    l.push(b'+');
    l.eol(CRLF);
    i = 0;
    while i < 2 {
        if i < sl {
            l.push(q[i]);
        }
        i += 1;
    }
    if TERM {
        l.eol(CRLF);
    }
    let n = l.len;
    nd.note("format", b"fastq");
    nd.note("file", &l.buf[..n]);
    let br = window::<FQ>(Src::plain(l.buf, n), FQ + 1, 0);
    let st = FqState { pos0: 0, pos1: 0, seq: 0, sep: 0, qual: 0, inc: 0, line: line0, byte: 0, state: 1 };
    let mut r = fq_reader(br, &st);
    let res = r.verif_search();
    let complete = match res {
        Ok(c) => c,
        Err(e) => {
            vassert!(false, "C12 no error appears for a well-formed record, whatever its line endings");
            std::mem::forget(e);
            false
        }
    };
    vassert!(complete == TERM, "C12 the record is complete exactly when its last line is terminated");
    if !TERM {
        let k = r.verif_incomplete_pos();
        vassert!(k == 4, "C12 the search stops in the quality line when the final terminator is missing");
        let res2 = r.verif_check_end(4);
        match res2 {
            Ok(found) => {
                vassert!(found, "C12 the last record without final terminator is returned");
            }
            Err(e) => {
                vassert!(false, "C12 no error appears or disappears with the line endings or the final terminator");
                std::mem::forget(e);
            }
        }
    }
    let rec = r.verif_current_record();
    let hh = [h];
    vassert!(eq_small(rec.head(), &hh[..hl]), "C12 identical header for every layout (no carriage return)");
    vassert!(eq_small(rec.seq(), &s[..sl]), "C12 identical sequence for every layout (no carriage return)");
    vassert!(eq_small(rec.qual(), &q[..sl]), "C12 identical quality for every layout (no carriage return)");
    cover!(sl == 2 && hl == 1, "maximal fields");
    cover!(sl == 0, "empty sequence and quality");
    std::mem::forget(r);
}

fn eq_small(a: &[u8], b: &[u8]) -> bool {
    if a.len() != b.len() {
        return false;
    }
    let mut ok = true;
    let mut i = 0;
    while i < 2 {
        if i < a.len() && a[i] != b[i] {
            ok = false;
        }
        i += 1;
    }
    ok
}

const FA: usize = 12;

/// FASTA: one record with two sequence lines, each line ending LF or CRLF by symbolic choice
pub fn fa_layout<N: Nd, const TERM: bool>(nd: &mut N) {
    let h = nd.u8();
    let hl = nd.usize_in(0, 1);
    let a = nd.u8();
    let al = nd.usize_in(0, 1);
    let b = nd.u8();
    let bl = nd.usize_in(0, 1);
    // sequence lines do not start with '>' (that would be a header line)
    nd.assume(clean(h) && clean(a) && clean(b) && a != b'>' && b != b'>');
    let (e1, e2, e3) = (nd.bool(), nd.bool(), nd.bool());
    let line0 = nd.u64();
    nd.assume(line0 >= 1 && line0 < (1 << 40));
    let mut l = Lay::<FA> { buf: [0; FA], len: 0 };
    l.push(b'>');
    if hl == 1 {
        l.push(h);
    }
    l.eol(e1);
    if al == 1 {
        l.push(a);
    }
    l.eol(e2);
    if bl == 1 {
        l.push(b);
    }
    if TERM {
        l.eol(e3);
    } else {
        // a last line without terminator must not be empty (it would not be a line)
        nd.assume(bl == 1);
    }
    let n = l.len;
    nd.note("format", b"fasta");
    nd.note("file", &l.buf[..n]);
    let br = window::<FA>(Src::plain(l.buf, n), FA + 1, 0);
    let st = FaState { start: 0, search_pos: 1, line: line0, byte: 0, state: 1 };
    let mut r = fa_reader(br, &st, Vec::with_capacity(8));
    let res = r.verif_search();
    vassert!(matches!(res, Ok(true)), "C12 the record is found for every mixture of line endings");
    std::mem::forget(res);
    vassert!(r.verif_seq_pos().len() == 3, "C12 the same number of lines for every mixture of line endings");
    {
        use fasta::Record;
        let rec = r.verif_current_record();
        let hh = [h];
        vassert!(eq_small(rec.head(), &hh[..hl]), "C12 identical header for every layout (no carriage return)");
        let mut it = rec.seq_lines();
        let l1 = it.next();
        let l2 = it.next();
        let l3 = it.next();
        let aa = [a];
        let bb = [b];
        vassert!(l1.is_some() && eq_small(l1.unwrap(), &aa[..al]), "C12 identical first sequence line for every layout");
        vassert!(l2.is_some() && eq_small(l2.unwrap(), &bb[..bl]), "C12 identical second sequence line for every layout");
        vassert!(l3.is_none(), "C12 no further line appears");
    }
    // same line numbers: the cursor advances by three lines
    r.verif_increment_record();
    vassert!(r.verif_position().0 == line0 + 3, "C12 the same line numbers for every layout");
    cover!(e1 && !e2, "mixed endings");
    cover!(al == 0, "empty first line");
    std::mem::forget(r);
}

pub fn fq_lf_term<N: Nd>(nd: &mut N) {
    fq_layout::<N, false, true>(nd)
}
pub fn fq_lf_noterm<N: Nd>(nd: &mut N) {
    fq_layout::<N, false, false>(nd)
}
pub fn fq_crlf_term<N: Nd>(nd: &mut N) {
    fq_layout::<N, true, true>(nd)
}
pub fn fq_crlf_noterm<N: Nd>(nd: &mut N) {
    fq_layout::<N, true, false>(nd)
}
pub fn fa_term<N: Nd>(nd: &mut N) {
    fa_layout::<N, true>(nd)
}
pub fn fa_noterm<N: Nd>(nd: &mut N) {
    fa_layout::<N, false>(nd)
}

harnesses! {
    /// @meta props=C12 tier=quick kind=K stage2=pub timeout=1500 mem=12 unwind=18 bounds="FASTQ record with header <= 1, sequence = quality <= 2 symbolic bytes (no CR/LF), LF endings, final terminator present; real search path"
    #[kani::stub(std::string::String::from_utf8_lossy, crate::src::stub_lossy_empty)]
    c12_fq_lf_term => fq_lf_term;
    /// @meta props=C12 tier=quick kind=K stage2=pub timeout=1500 mem=12 unwind=18 bounds="as above, LF endings, final terminator absent (search + check_end)"
    #[kani::stub(std::string::String::from_utf8_lossy, crate::src::stub_lossy_empty)]
    c12_fq_lf_noterm => fq_lf_noterm;
    /// @meta props=C12 tier=quick kind=K stage2=pub timeout=1500 mem=12 unwind=18 bounds="as above, CRLF endings, final terminator present"
    #[kani::stub(std::string::String::from_utf8_lossy, crate::src::stub_lossy_empty)]
    c12_fq_crlf_term => fq_crlf_term;
    /// @meta props=C12 tier=quick kind=K stage2=pub timeout=1500 mem=12 unwind=18 bounds="as above, CRLF endings, final terminator absent (search + check_end)"
    #[kani::stub(std::string::String::from_utf8_lossy, crate::src::stub_lossy_empty)]
    c12_fq_crlf_noterm => fq_crlf_noterm;
    /// @meta props=C12 tier=quick kind=K stage2=pub timeout=1500 mem=12 unwind=14 bounds="FASTA record with header <= 1 byte and two sequence lines <= 1 byte, every per-line mixture of LF/CRLF, final terminator present; real search path and line iterator"
    c12_fa_term => fa_term;
    /// @meta props=C12 tier=quick kind=K stage2=pub timeout=1500 mem=12 unwind=14 bounds="as above, final terminator absent"
    c12_fa_noterm => fa_noterm;
}

//! C09 — the buffer grows only as the policy directs and only when needed.
use crate::nd::Nd;
use seq_io::policy::{BufPolicy, DoubleUntil, DoubleUntilLimited, StdPolicy};

const LIM: usize = 1 << 62;

/// documented sizes: double below the threshold, add the threshold from it on
fn doc_size(current: usize, threshold: usize) -> usize {
    if current < threshold {
        current * 2
    } else {
        current + threshold
    }
}

pub fn policy_std<N: Nd>(nd: &mut N) {
    let c = nd.usize();
    nd.assume(c < LIM);
    nd.note_num("current", c as u64);
    let r = StdPolicy.grow_to(c);
    vassert!(r == Some(doc_size(c, 8 * 1024 * 1024)), "C09 StdPolicy size");
    // the contract the readers rely on: strictly larger for every non-zero capacity
    if c > 0 {
        vassert!(r.unwrap() > c, "C09 StdPolicy grows");
    }
    cover!(c < 8 * 1024 * 1024, "doubling branch");
    cover!(c >= 8 * 1024 * 1024, "linear branch");
}

pub fn policy_double_until<N: Nd>(nd: &mut N) {
    let c = nd.usize();
    let t = nd.usize();
    nd.assume(c < LIM && t < LIM);
    nd.note_num("current", c as u64);
    nd.note_num("threshold", t as u64);
    let r = DoubleUntil(t).grow_to(c);
    vassert!(r == Some(doc_size(c, t)), "C09 DoubleUntil size");
    cover!(c < t, "doubling branch");
    cover!(c >= t, "linear branch");
}

pub fn policy_double_until_limited<N: Nd>(nd: &mut N) {
    let c = nd.usize();
    let t = nd.usize();
    let l = nd.usize();
    nd.assume(c < LIM && t < LIM && l < LIM);
    nd.note_num("current", c as u64);
    nd.note_num("threshold", t as u64);
    nd.note_num("limit", l as u64);
    let r = DoubleUntilLimited::new(t, l).grow_to(c);
    let want = doc_size(c, t);
    if want <= l {
        vassert!(r == Some(want), "C09 DoubleUntilLimited size within limit");
    } else {
        vassert!(r.is_none(), "C09 DoubleUntilLimited refuses beyond limit");
    }
    cover!(r.is_none(), "refusal");
    cover!(r.is_some() && c < t, "doubling within limit");
    cover!(r.is_some() && c >= t, "linear within limit");
}

harnesses! {
    /// @meta props=C09 tier=quick kind=R timeout=300 mem=8 bounds="every current size < 2^62 (full 64-bit arithmetic)"
    c09_policy_std => policy_std;
    /// @meta props=C09 tier=quick kind=R timeout=300 mem=8 bounds="every current size and threshold < 2^62"
    c09_policy_double_until => policy_double_until;
    /// @meta props=C09 tier=quick kind=R timeout=300 mem=8 bounds="every current size, threshold and limit < 2^62"
    c09_policy_double_until_limited => policy_double_until_limited;
}

#!/usr/bin/env python3
"""Regenerates /verif/MANIFEST.json from the harness registry (check.py) and the tables below."""
import json
import os
import sys

sys.path.insert(0, os.path.dirname(os.path.abspath(__file__)))
import check

V = os.path.dirname(os.path.abspath(__file__))
HOOK_COMMITS = ["9853245"]

TEXT = {
    "C01": ("Bounded model checking (Kani/CBMC, SAT) of the real FASTA search kernels (search/_search with the end-of-input "
            "rule and the look-ahead byte, init/first_byte, increment_record, fill_buf, trim_cr, and resume_incomplete_search on "
            "its compaction branch with a short first read) from symbolic reader states over "
            "every window of every file within the bounds, against a file-only reference of the FASTA rules; composition of "
            "the kernels into next() is argued on paper (DESIGN §7) and confirmed natively by pubcheck for counterexamples.",
            "files <= 8 bytes, <= 6 line ends per record, capacities <= 9; next()'s state dispatch and the growth branch of "
            "resume_incomplete_search are not encoded (too large for the solver, DESIGN §3, §13.8)"),
    "C02": ("Bounded model checking of the real FASTQ kernels (search incl. validate, search_incomplete for each resume point, "
            "check_end, fill_buf, trim_cr) from symbolic states over every file <= 9 bytes, against the admissible-outcome reference.",
            "files <= 9 bytes; ids not inspected here (stub of from_utf8_lossy); next()'s dispatch and the loop of "
            "resume_incomplete_search are not encoded (DESIGN §13.8)"),
    "C03": ("Derived: every kernel obligation is stated against the configuration-free reference with the window offset, "
            "capacity instance, chunking, interrupt pattern symbolic; specific kernels: fill_buf under every chunking/interrupt "
            "pattern, make_room of both readers, FASTA init across refills (incl. blank prefixes spanning three buffer fills), "
            "FASTA resume_incomplete_search (compaction + refill with a short first read).",
            "capacities <= 6 in the refill kernels; two-reader relational whole runs are out of reach of the solver"),
    "C04": ("Record sets from parts (stale coordinates hidden, iteration yields exactly the batch), plus the search/increment "
            "kernels shared with C01/C02/C05 that every read path is composed of; the read_record_set loop itself is only "
            "explored natively (pubcheck) to confirm counterexamples.",
            "the loop of read_record_set_exact is not encoded (solver cost); D4/D6 were found by the native monitor and fixed"),
    "C05": ("Positions: increment_record after search (both formats), FASTA init, and seek() of both readers from every state "
            "to every target (in-buffer shortcut and real seek + refill), bounded model checking.",
            "files <= 8 bytes, capacity 4 in the seek kernels"),
    "C06": ("Every harness runs with Kani's built-in checks (panics, unwrap, slice bounds, arithmetic overflow, pointer validity) "
            "and unwinding assertions on; plus calls after the end of input from arbitrary stale coordinates.",
            "totality of whole call sequences is only covered kernel by kernel"),
    "C09": ("Policy arithmetic at full 64-bit width; grow() of both readers with a recording policy (real buffer-redux); "
            "set_policy preserves every field; compaction/refill keep the capacity.",
            "values < 2^62; the 'only when the record does not fit' clause is covered at the level of resume decisions only "
            "in the thorough tier"),
    "C10": ("All FASTA writer entry points on fully symbolic small data: byte-exact layout, wrap shape, chunked == whole, "
            "reference re-parse.", "header <= 2, sequence <= 5 bytes, wrap <= 6"),
    "C11": ("FASTQ writers byte-exact + reference re-parse; write_unchanged of both formats on records from parts.",
            "fields <= 3 bytes; records from parts in buffers <= 10 bytes"),
    "C12": ("Symbolic fields laid out as LF/CRLF x final terminator present/absent (FASTA: per-line mixture); the real search "
            "path must return exactly the fields for every layout.", "one record, fields <= 2 bytes"),
    "C13": ("Relations between all accessors on records from parts under the record invariant, both formats, RefRecord and "
            "OwnedRecord; UTF-8 text accessors id()/desc() of both formats on arbitrary headers of <= 2 bytes, id_desc() on arbitrary headers of <= 3 bytes.", "buffers <= 8 (FASTA) / 10 (FASTQ) bytes, <= 2 lines; text accessors: headers <= 2 bytes (id_desc: <= 3), core::str::from_utf8 stubbed by an explicit validator and, for id_desc(), core's internal memchr by a byte loop"),
    "C14": ("fill_buf with a fault-injecting source (any kind, any of the first 6 calls, any interrupt pattern); seek() with a "
            "failing source; FASTA resume_incomplete_search with a failing refill (error kind preserved, terminal).",
            "next()-level propagation (try_opt!) is a two-line macro not separately encoded; the FASTQ resume loop is not encoded"),
    "C17": ("Error fields of every FASTQ format error against the reference (line, found byte, lengths), FASTA InvalidStart "
            "line/byte, error id under the ASCII assumption.", "Display/to_string not executed (formatting machinery out of reach)"),
    "C18": ("Allocator entry points stubbed by counting wrappers: steady-state kernels (search + increment_record, "
            "make_room + fill_buf) leave the counter and the capacities unchanged; returned slices lie inside the buffer.",
            "kernel level; read_record_set's copy is not encoded"),
    "C20": ("SeqLines under every sequence of 5 front/back steps with len/size_hint after each; adaptors; record-set iterators; "
            "owned iterators after the end.", "<= 3 lines; record sets <= 2 records"),
}

E3_TEXT = {
    "C07": ("z3 bounded model checking of the product of the thread automata extracted from the nightly MIR of src/parallel.rs "
            "(read_parallel_init, its scope / reader / pool / job closures, ParallelRecordsets::next) with axioms for sync_channel, "
            "crossbeam scope and scoped_threadpool: no interleaving delivers a record set twice, with another set's output, or "
            "(draining consumer) not at all; file order with one worker.",
            "queue_len 2, 2 workers, <= 2 record sets, depth 30 (quick); per-record pairing inside a set not modelled"),
    "C08": ("same model: no reachable deadlock, and every run has terminated within the depth bound, for every consumer "
            "behaviour (stop after any number of results), reader error, failing initialisers.",
            "bounds as C07; user closures do not panic; the consumer does not call next() after the end marker"),
    "C15": ("same model: no panic; the reader's error reaches a draining consumer exactly once after all earlier sets; a failing "
            "reader/data-set initialiser makes the call return Err (D5 found by this query and fixed).",
            "bounds as C07; equality of the parallel and the sequential parse error rests on fill_data == read_record_set (checked in the MIR) and C02/C17"),
    "C16": ("same model: at most queue_len + 1 data sets are ever created, fills never run more than queue_len + 1 ahead of "
            "deliveries; fill_data is only applied to a set received back through the recycle channel (extraction rule).",
            "bounds as C07"),
}

TEXT["C19"] = ("The derive-generated Serialize/Deserialize code of OwnedRecord and RecordSet (both formats, incl. the private "
               "BufferPosition structs and stale positions beyond npos) is run by the solver against a minimal positional serde back end "
               "written in the harness crate; the deserialised value must expose the same buffer, record count and coordinates.",
               "vector lengths concrete (1-2 bytes, 2 positions), contents and offsets symbolic; format-specific behaviour of real serde back ends is outside the claim")

NOT_APPLICABLE = {
    "C19": "serde round trip needs a serde back end inside the harness; the derive-generated visitors over a hand-written "
           "value-tree format were not brought under the solver within the time budget",
}


def main():
    reg = check.load_registry()
    props = [json.loads(l) for l in open(os.path.join(V, "properties.jsonl"))]
    claimed = sorted({p for h in reg.values() for p in h["props"] if p.startswith("C")})
    m = {
        "version": 1,
        "setup_cmd": "python3 /verif/setup.py",
        "hooks": {
            "guard": "markschl_seq_io_verif",
            "enable": "RUSTFLAGS='--cfg markschl_seq_io_verif' (set by /verif/check.py for every build of /repo)",
            "baseline_off_cmd": "cd /repo && cargo test --workspace --no-fail-fast --offline",
            "source_commits": HOOK_COMMITS,
            "add_only": True,
        },
        "engines": [{
            "name": "E1-kani", "path": "/verif/kani", "serves_properties": claimed,
            "kind_free_text": "Kani 0.68 proof harnesses over the compiled MIR of /repo (path dependency, rebuilt on every run), "
                              "decided by CBMC 6.11 / CaDiCaL with unwinding assertions and cover witnesses; counterexamples are "
                              "replayed natively by /verif/replay (real memchr, real buffer-redux) and, for harnesses starting "
                              "from internal states, confirmed through the public API by pubcheck"}],
        "checks": [],
        "not_applicable": [],
        "notes": "see DESIGN.md; known_findings.json lists the defects found and fixed",
    }
    m["engines"].append({
        "name": "E3-mir-z3", "path": "/verif/e3", "serves_properties": sorted(E3_TEXT),
        "kind_free_text": "nightly MIR dump of /repo -> mirx.py (abstract interpretation of the protocol bodies into thread automata; "
                          "anything outside the recognised vocabulary => INCONCLUSIVE) -> bmc.py (z3 bit-vector BMC over interleavings, "
                          "outcomes and scenarios) -> e3/replayer (native run of the real functions under the counterexample's scenario "
                          "and a time-triggered schedule); extracted automata are validated against native traces on every run"})
    for p in props:
        pid = p["id"]
        if pid in E3_TEXT and os.path.exists(os.path.join(V, "e3", "check_par.py")):
            t, note = E3_TEXT[pid]
            m["checks"].append({
                "property_id": pid,
                "quick_cmd": "python3 /verif/check.py %s --tier quick" % pid,
                "thorough_cmd": "python3 /verif/check.py %s --tier thorough" % pid,
                "evidence_file": "/verif/evidence/%s.json" % pid,
                "engine": "E3-mir-z3",
                "level_claimed": {"category": "model_checking", "text": t, "design_ref": "DESIGN.md §13.6 " + pid},
                "level_note": "bounded: " + note + "; hand-written axioms for std mpsc, crossbeam scope, scoped_threadpool; sequentially consistent interleavings; z3 soundness",
                "technique": "SMT-based bounded model checking (z3) of thread automata extracted from the compiler's MIR",
            })
            continue
        if pid in claimed and pid in TEXT:
            t, note = TEXT[pid]
            m["checks"].append({
                "property_id": pid,
                "quick_cmd": "python3 /verif/check.py %s --tier quick" % pid,
                "thorough_cmd": "python3 /verif/check.py %s --tier thorough" % pid,
                "evidence_file": "/verif/evidence/%s.json" % pid,
                "replay_cmd_template": "python3 /verif/check.py --replay {path}",
                "engine": "E1-kani",
                "level_claimed": {"category": "model_checking", "text": t, "design_ref": "DESIGN.md §9 " + pid},
                "level_note": "bounded: " + note + "; memchr replaced by a naive shim under Kani; Kani/CBMC/CaDiCaL soundness",
                "technique": "bounded model checking of the compiled Rust code with Kani/CBMC (SAT), symbolic inputs and states",
            })
        else:
            m["not_applicable"].append({"property_id": pid, "reason": NOT_APPLICABLE.get(pid, "not claimed")})
    json.dump(m, open(os.path.join(V, "MANIFEST.json"), "w"), indent=1)
    print("claimed:", [c["property_id"] for c in m["checks"]])
    print("n/a:", [c["property_id"] for c in m["not_applicable"]])


if __name__ == "__main__":
    main()

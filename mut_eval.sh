#!/bin/bash
# mut_eval.sh [ids...] : apply each seeded change to /repo, run the quick check of the property it breaks, undo it.
cd /verif
ids="$@"; [ -z "$ids" ] && ids=$(ls seeded)
for id in $ids; do
  d=seeded/$id; prop=${id%%-*}
  case $prop in C07|C08|C15|C16|C19) continue;; esac
  (cd /repo && git checkout -q -- . && git apply /verif/$d/patch.diff) || { echo "$id PATCH-FAILED"; continue; }
  s=$(date +%s)
  out=$(python3 check.py $prop --tier ${TIER:-quick} 2>&1); rc=$?
  (cd /repo && git checkout -q -- .)
  v=$(echo "$out" | grep -E "^VIOLATION" | head -2 | tr '\n' ' ')
  h=$(echo "$out" | grep -E "harness=" | head -1 | cut -c1-300)
  echo "$id prop=$prop rc=$rc $(( $(date +%s) - s ))s | $v | $h | $(echo "$out" | grep -E 'INCONCLUSIVE|BROKEN|NOTE' | head -2 | cut -c1-200 | tr '\n' ' ')"
  echo "$out" > .work/logs/mut_$id.out
done

#!/bin/bash
# build the native replayer / pubcheck against /repo (hooks on); prints only errors
export CARGO_NET_OFFLINE=true RUSTFLAGS="--cfg markschl_seq_io_verif --check-cfg cfg(markschl_seq_io_verif)"
cd /verif/replay && cargo build --offline --release --target-dir /verif/.work/replay-target 2>&1 | grep -E "^error" -A6 | head -30

#!/usr/bin/env python3
"""Offline setup: pre-compile the harness workspace and the native replayer against /repo."""
import os, subprocess, sys
V = os.path.dirname(os.path.abspath(__file__))
env = dict(os.environ, CARGO_NET_OFFLINE="true",
           RUSTFLAGS="--cfg markschl_seq_io_verif --check-cfg cfg(markschl_seq_io_verif)")
env.pop("CARGO_TARGET_DIR", None)
os.makedirs(os.path.join(V, ".work", "logs"), exist_ok=True)
rc = 0
rc |= subprocess.call(["cargo", "build", "--offline", "--target-dir", os.path.join(V, ".work", "replay-target")],
                      cwd=os.path.join(V, "replay"), env=env)
rc |= subprocess.call(["cargo", "build", "--offline", "--release", "--target-dir", os.path.join(V, ".work", "replay-target")],
                      cwd=os.path.join(V, "replay"), env=env)
rc |= subprocess.call(["cargo", "kani", "--only-codegen", "--harness", "c09::c09_policy_std", "--exact",
                       "--target-dir", os.path.join(V, ".work", "kani-target")],
                      cwd=os.path.join(V, "kani"), env=env)
sys.exit(1 if rc else 0)

//! Source of nondeterminism shared by the Kani proofs and the native replayer.
//! Under Kani every call is one `kani::any::<primitive>()`, so that the
//! `concrete_vals` list printed by concrete playback is exactly the tape that
//! `TapeNd` consumes natively, in the same order.

pub trait Nd {
    fn u8(&mut self) -> u8;
    fn bool(&mut self) -> bool;
    fn usize(&mut self) -> usize;
    fn u64(&mut self) -> u64;
    fn assume(&mut self, c: bool);
    /// record a named part of the concrete case (native replay only)
    fn note(&mut self, _key: &'static str, _val: &[u8]) {}
    fn note_num(&mut self, _key: &'static str, _val: u64) {}

    #[inline]
    fn usize_in(&mut self, lo: usize, hi: usize) -> usize {
        let v = self.usize();
        self.assume(lo <= v && v <= hi);
        v
    }
    #[inline]
    fn u8_in(&mut self, lo: u8, hi: u8) -> u8 {
        let v = self.u8();
        self.assume(lo <= v && v <= hi);
        v
    }
}

#[cfg(kani)]
pub struct KaniNd;

#[cfg(kani)]
impl Nd for KaniNd {
    #[inline]
    fn u8(&mut self) -> u8 {
        kani::any()
    }
    #[inline]
    fn bool(&mut self) -> bool {
        kani::any()
    }
    #[inline]
    fn usize(&mut self) -> usize {
        kani::any()
    }
    #[inline]
    fn u64(&mut self) -> u64 {
        kani::any()
    }
    #[inline]
    fn assume(&mut self, c: bool) {
        kani::assume(c)
    }
}

/// Panic payload used by the native replayer when the tape violates an
/// assumption of the harness (the case is then not a counterexample).
pub struct AssumeViolated;

#[cfg(not(kani))]
pub struct TapeNd {
    pub vals: Vec<Vec<u8>>,
    pub next: usize,
    pub notes: Vec<(String, String)>,
    pub exhausted: bool,
}

#[cfg(not(kani))]
impl TapeNd {
    pub fn new(vals: Vec<Vec<u8>>) -> Self {
        TapeNd {
            vals,
            next: 0,
            notes: Vec::new(),
            exhausted: false,
        }
    }
    fn pop(&mut self, n: usize) -> u64 {
        let mut v = 0u64;
        if self.next < self.vals.len() {
            let b = &self.vals[self.next];
            for (i, x) in b.iter().take(n).enumerate() {
                v |= (*x as u64) << (8 * i);
            }
        } else {
            self.exhausted = true;
        }
        self.next += 1;
        v
    }
}

#[cfg(not(kani))]
impl Nd for TapeNd {
    fn u8(&mut self) -> u8 {
        self.pop(1) as u8
    }
    fn bool(&mut self) -> bool {
        self.pop(1) & 1 == 1
    }
    fn usize(&mut self) -> usize {
        self.pop(8) as usize
    }
    fn u64(&mut self) -> u64 {
        self.pop(8)
    }
    fn assume(&mut self, c: bool) {
        if !c {
            std::panic::panic_any(AssumeViolated);
        }
    }
    fn note(&mut self, key: &'static str, val: &[u8]) {
        self.notes.push((key.to_string(), crate::util::show_bytes(val)));
    }
    fn note_num(&mut self, key: &'static str, val: u64) {
        self.notes.push((key.to_string(), val.to_string()));
    }
}

//! e3replay '<json>'   (json = {"config":{queue_len,n_threads,..},"scenario":{sets,reader_error,reader_init_fails,dataset_init_fails_at_call},"steps":[[thread,[prims..]],..],"attempts":n})
//! Runs the REAL read_parallel_init with
//!   * a Reader whose fill_data yields `sets` data sets and then the end (or an error),
//!   * initialisation closures failing as the scenario says,
//!   * a consumer calling next() as often as the counterexample did,
//!   * every closure-visible event (init, fill, work, consumer call) delayed until its slot in the
//!     counterexample's order (time-triggered steering),
//! under a watchdog. Prints one JSON line of observed facts.
use seq_io::parallel::{read_parallel_init, Reader};
use std::sync::atomic::{AtomicUsize, Ordering};
use std::sync::{Arc, Mutex};
use std::time::{Duration, Instant};

struct Sched {
    t0: Instant,
    slots: Vec<(String, u64)>, // event key -> slot index
    slot_ms: u64,
}
impl Sched {
    fn wait(&self, key: &str) {
        if let Some((_, i)) = self.slots.iter().find(|(k, _)| k == key) {
            let due = self.t0 + Duration::from_millis(self.slot_ms * (*i + 1));
            let now = Instant::now();
            if due > now {
                std::thread::sleep(due - now);
            }
        }
    }
}

#[derive(Default, Debug)]
struct Facts {
    delivered: Vec<i64>,
    outs: Vec<i64>,
    errs: usize,
    none_seen: bool,
    created: usize,
    events: Vec<String>,
}

struct Data {
    batch: i64,
}

struct R {
    sets: usize,
    err: bool,
    n: usize,
    sched: Arc<Sched>,
    facts: Arc<Mutex<Facts>>,
}
impl Reader for R {
    type DataSet = Data;
    type Err = String;
    fn fill_data(&mut self, d: &mut Data) -> Option<Result<(), String>> {
        self.sched.wait(&format!("fill{}", self.n));
        let i = self.n;
        self.n += 1;
        let r = if i < self.sets {
            d.batch = i as i64;
            Some(Ok(()))
        } else if i == self.sets && self.err {
            Some(Err("reader error".to_string()))
        } else {
            None
        };
        self.facts.lock().unwrap().events.push(format!("fill {}", match &r { None => "none", Some(Ok(_)) => "ok", Some(Err(_)) => "err" }));
        r
    }
}

fn num(s: &str, key: &str) -> Option<i64> {
    let i = s.find(&format!("\"{}\"", key))?;
    let rest = &s[i + key.len() + 2..];
    let rest = rest.trim_start_matches(|c: char| c == ':' || c == ' ' || c == '"');
    let end = rest.find(|c: char| !(c.is_ascii_digit() || c == '-')).unwrap_or(rest.len());
    rest[..end].parse().ok()
}
fn flag(s: &str, key: &str) -> bool {
    s.find(&format!("\"{}\"", key)).map_or(false, |i| s[i..].splitn(2, ':').nth(1).map_or(false, |r| r.trim_start().trim_start_matches('"').starts_with("True") || r.trim_start().starts_with("true")))
}

fn main() {
    let arg = std::env::args().nth(1).expect("json argument");
    let ql = num(&arg, "queue_len").unwrap_or(1) as usize;
    let nthr = num(&arg, "n_threads").unwrap_or(1) as u32;
    let sets = num(&arg, "sets").unwrap_or(0).max(0) as usize;
    let rerr = flag(&arg, "reader_error");
    let rifail = flag(&arg, "reader_init_fails");
    let mut difail = num(&arg, "dataset_init_fails_at_call").unwrap_or(-1);
    if difail > 15 {
        difail -= 32; // 5-bit two's complement printed unsigned
    }
    // time-triggered schedule computed by check_par.py: "schedule": {"fill0": 3, "work0": 5, "workend0": 9, ...}
    let mut slots: Vec<(String, u64)> = vec![];
    if let Some(i) = arg.find("\"schedule\"") {
        let rest = &arg[i..];
        if let (Some(a), Some(b)) = (rest.find('{'), rest.find('}')) {
            for kv in rest[a + 1..b].split(',') {
                let mut it = kv.split(':');
                if let (Some(k), Some(v)) = (it.next(), it.next()) {
                    if let Ok(n) = v.trim().parse::<u64>() {
                        slots.push((k.trim().trim_matches('"').to_string(), n));
                    }
                }
            }
        }
    }
    let c = num(&arg, "calls").unwrap_or(-1);
    let calls = if c >= 0 { c as usize } else { sets + 2 };
    let attempts = num(&arg, "attempts").unwrap_or(3);
    let mut out = String::new();
    for _ in 0..attempts {
        let facts = Arc::new(Mutex::new(Facts::default()));
        let sched = Arc::new(Sched { t0: Instant::now(), slots: slots.clone(), slot_ms: 15 });
        let (f2, s2) = (facts.clone(), sched.clone());
        let done = Arc::new(AtomicUsize::new(0));
        let d2 = done.clone();
        let result: Arc<Mutex<Option<String>>> = Arc::new(Mutex::new(None));
        let r2 = result.clone();
        let h = std::thread::spawn(move || {
            let (f3, s3) = (f2.clone(), s2.clone());
            let (f4, s4) = (f2.clone(), s2.clone());
            let (f5, s5) = (f2.clone(), s2.clone());
            let (f6, s6) = (f2.clone(), s2.clone());
            let ndi = AtomicUsize::new(0);
            let nwork = AtomicUsize::new(0);
            let res: Result<(), String> = read_parallel_init::<R, String, _, String, i64, _, String, _, _, ()>(
                nthr,
                ql,
                move || {
                    s3.wait("init_r");
                    f3.lock().unwrap().events.push("init_r".into());
                    if rifail {
                        Err("reader_init failed".to_string())
                    } else {
                        Ok(R { sets, err: rerr, n: 0, sched: s3.clone(), facts: f3.clone() })
                    }
                },
                move || {
                    let i = ndi.fetch_add(1, Ordering::SeqCst);
                    s4.wait(&format!("init_d{}", i));
                    let mut f = f4.lock().unwrap();
                    f.events.push(format!("init_d {}", i));
                    if difail >= 0 && i as i64 == difail {
                        Err("dataset_init failed".to_string())
                    } else {
                        f.created += 1;
                        Ok(Data { batch: -1 })
                    }
                },
                move |d: &mut Data| {
                    let _ = nwork.fetch_add(1, Ordering::SeqCst);
                    s5.wait(&format!("work{}", d.batch));
                    f5.lock().unwrap().events.push(format!("work {}", d.batch));
                    // the worker finishes in the slot in which the job sends its result
                    s5.wait(&format!("workend{}", d.batch));
                    d.batch
                },
                move |rsets| {
                    for c in 0..calls {
                        s6.wait(&format!("next{}", c));
                        match rsets.next() {
                            None => {
                                f6.lock().unwrap().none_seen = true;
                                f6.lock().unwrap().events.push("deliver_none".into());
                                break;
                            }
                            Some(Ok((d, o))) => {
                                let mut f = f6.lock().unwrap();
                                f.delivered.push(d.batch);
                                f.outs.push(o);
                                f.events.push(format!("deliver {} {}", d.batch, o));
                            }
                            Some(Err(_)) => {
                                let mut f = f6.lock().unwrap();
                                f.errs += 1;
                                f.events.push("deliver_err".into());
                            }
                        }
                    }
                },
            );
            *r2.lock().unwrap() = Some(match res {
                Ok(()) => "Ok".to_string(),
                Err(e) => format!("Err({})", e),
            });
            d2.store(1, Ordering::SeqCst);
        });
        let start = Instant::now();
        let mut hung = false;
        while done.load(Ordering::SeqCst) == 0 && !h.is_finished() {
            if start.elapsed() > Duration::from_secs(6) {
                hung = true;
                break;
            }
            std::thread::sleep(Duration::from_millis(5));
        }
        let panicked = !hung && h.is_finished() && done.load(Ordering::SeqCst) == 0;
        let f = facts.lock().unwrap();
        let res = result.lock().unwrap().clone().unwrap_or_else(|| "-".to_string());
        out = format!(
            "{{\"hung\":{},\"panicked\":{},\"result\":\"{}\",\"delivered\":{:?},\"outs\":{:?},\"errs\":{},\"none_seen\":{},\"created\":{},\"sets\":{},\"queue_len\":{},\"n_threads\":{},\"events\":{:?}}}",
            hung, panicked, res.replace('"', "'"), f.delivered, f.outs, f.errs, f.none_seen, f.created, sets, ql, nthr, f.events
        );
        println!("{}", out);
        if hung || panicked {
            break;
        }
    }
    if out.contains("\"hung\":true") {
        std::process::exit(0); // threads are stuck: leave without joining
    }
}

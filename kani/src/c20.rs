//! C20 — iterators handed out by the library obey the iterator contracts at every step.
use crate::nd::Nd;
use crate::recs::*;
use seq_io::fasta::Record;

fn same(a: &[u8], buf: &[u8], r: (usize, usize)) -> bool {
    if a.len() != r.1 - r.0 {
        return false;
    }
    let mut ok = true;
    let mut i = 0;
    while i < FB {
        if i < a.len() && a[i] != buf[r.0 + i] {
            ok = false;
        }
        i += 1;
    }
    ok
}

/// SeqLines: any sequence of <= 5 front/back steps; length and size hint after every step;
/// every line exactly once; fused.
pub fn seqlines_steps<N: Nd, const L: usize>(nd: &mut N) {
    let parts = any_fa_record_l(nd, L);
    let bp = parts.bufpos();
    let rec = bp.record(parts.buffer());
    let nlines = parts.l - 1;
    let mut it = rec.seq_lines();
    let mut front = 1usize; // next line index from the front
    let mut back = nlines; // next line index from the back
    let mut step = 0;
    while step < 5 {
        let remaining = back + 1 - front;
        vassert!(it.len() == remaining, "C20 SeqLines::len equals the number of lines still to come");
        let (lo, hi) = it.size_hint();
        vassert!(lo <= remaining && hi == Some(remaining), "C20 SeqLines::size_hint brackets the remaining lines");
        let from_back = nd.bool();
        let got = if from_back { it.next_back() } else { it.next() };
        if remaining == 0 {
            vassert!(got.is_none(), "C20 SeqLines stays at the end once it reported the end");
        } else {
            vassert!(got.is_some(), "C20 SeqLines yields while lines remain");
            let k = if from_back { back } else { front };
            vassert!(same(got.unwrap(), &parts.buf, parts.line(k)), "C20 SeqLines yields each line exactly once (content)");
            if from_back {
                back -= 1;
            } else {
                front += 1;
            }
        }
        step += 1;
    }
    cover!(front > back, "all lines consumed");
    std::mem::forget(bp);
}

/// adaptors that rely on the exact length: enumerate().rev(), rev(), zip, skip
pub fn seqlines_adaptors<N: Nd, const L: usize>(nd: &mut N) {
    let parts = any_fa_record_l(nd, L);
    let bp = parts.bufpos();
    let rec = bp.record(parts.buffer());
    let nlines = parts.l - 1;
    // enumerate + reverse: indices nlines-1 .. 0, each with its own line
    let mut k = nlines;
    let mut it = rec.seq_lines().enumerate().rev();
    let mut step = 0;
    while step < ML {
        match it.next() {
            Some((i, line)) => {
                vassert!(k > 0, "C20 enumerate().rev() yields no more items than lines");
                k -= 1;
                vassert!(i == k, "C20 enumerate().rev() indices count down from the last line");
                vassert!(same(line, &parts.buf, parts.line(k + 1)), "C20 enumerate().rev() pairs index and line");
            }
            None => {
                vassert!(k == 0, "C20 enumerate().rev() yields every line");
            }
        }
        step += 1;
    }
    // one step from the front, then reverse-enumerate the rest
    if nlines >= 2 {
        let mut it2 = rec.seq_lines();
        it2.next();
        let mut e = it2.enumerate();
        let last = e.next_back();
        vassert!(last.is_some() && last.unwrap().0 == nlines - 2, "C20 enumerate after one front step indexes from the new front");
    }
    vassert!(rec.seq_lines().rev().count() == nlines, "C20 rev().count()");
    vassert!(rec.seq_lines().skip(1).len() == nlines.saturating_sub(1), "C20 skip(1).len()");
    vassert!(rec.seq_lines().zip(rec.seq_lines()).len() == nlines, "C20 zip().len()");
    vassert!(rec.num_seq_lines() == nlines, "C20 num_seq_lines");
    cover!(k == 0, "all lines enumerated");
    std::mem::forget(bp);
}

pub fn steps_l1<N: Nd>(nd: &mut N) {
    seqlines_steps::<N, 1>(nd)
}
pub fn steps_l2<N: Nd>(nd: &mut N) {
    seqlines_steps::<N, 2>(nd)
}
pub fn steps_l3<N: Nd>(nd: &mut N) {
    seqlines_steps::<N, 3>(nd)
}
pub fn steps_l4<N: Nd>(nd: &mut N) {
    seqlines_steps::<N, 4>(nd)
}
pub fn adaptors_l1<N: Nd>(nd: &mut N) {
    seqlines_adaptors::<N, 1>(nd)
}
pub fn adaptors_l3<N: Nd>(nd: &mut N) {
    seqlines_adaptors::<N, 3>(nd)
}
pub fn adaptors_l4<N: Nd>(nd: &mut N) {
    seqlines_adaptors::<N, 4>(nd)
}

harnesses! {
    /// @meta props=C20 tier=quick kind=R timeout=600 mem=10 bounds="record from parts under the record invariant: buffer <= 8 symbolic bytes, 0 sequence lines, every sequence of 5 front/back steps" unwind=10
    c20_seqlines_steps_l1 => steps_l1;
    /// @meta props=C20 tier=quick kind=R timeout=600 mem=10 bounds="record from parts: buffer <= 8 symbolic bytes, 1 sequence line, every sequence of 5 front/back steps" unwind=10
    c20_seqlines_steps_l2 => steps_l2;
    /// @meta props=C20 tier=quick kind=R timeout=600 mem=10 bounds="record from parts: buffer <= 8 symbolic bytes, 2 sequence lines, every sequence of 5 front/back steps" unwind=10
    c20_seqlines_steps_l3 => steps_l3;
    /// @meta props=C20 tier=quick kind=R timeout=600 mem=10 bounds="record from parts: buffer <= 8 symbolic bytes, 3 sequence lines, every sequence of 5 front/back steps" unwind=10
    c20_seqlines_steps_l4 => steps_l4;
    /// @meta props=C20 tier=quick kind=R timeout=600 mem=10 bounds="record from parts: buffer <= 8 bytes, 0 lines; enumerate/rev/skip/zip" unwind=10
    c20_seqlines_adaptors_l1 => adaptors_l1;
    /// @meta props=C20 tier=quick kind=R timeout=600 mem=10 bounds="record from parts: buffer <= 8 bytes, 2 lines; enumerate/rev/skip/zip" unwind=10
    c20_seqlines_adaptors_l3 => adaptors_l3;
    /// @meta props=C20 tier=quick kind=R timeout=600 mem=10 bounds="record from parts: buffer <= 8 bytes, 3 lines; enumerate/rev/skip/zip" unwind=10
    c20_seqlines_adaptors_l4 => adaptors_l4;
}

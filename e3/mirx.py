#!/usr/bin/env python3
"""mirx.py — extracts the communication skeleton of src/parallel.rs from the nightly MIR dump.

For each protocol body (read_parallel_init, its scope closure, the reader-thread closure, the
pool-scope closure, the job closure, ParallelRecordsets::next and its closure) the MIR is parsed
and abstractly interpreted: drop flags, enum discriminants of values produced by modelled calls,
the `0..queue_len` range and closure environments are tracked exactly; every call terminator must
belong to the recognised vocabulary (communication actions or whitelisted data plumbing),
otherwise `Unrecognised` is raised and the check is INCONCLUSIVE (never a pass, never a violation).

The result is one finite automaton per thread role (main, reader, job) whose edges are labelled
with communication actions (+ outcome), ready for the z3 encoding in bmc.py.
"""
import re
import sys


class Unrecognised(Exception):
    pass


# ------------------------------------------------------------------------------------------------
# MIR text -> bodies
# ------------------------------------------------------------------------------------------------
class Body:
    def __init__(self, name, sig):
        self.name = name
        self.sig = sig
        self.types = {}   # local -> type string
        self.debug = {}   # source name -> local
        self.blocks = {}  # bb id -> (stmts, terminator, cleanup)


def parse_mir(text):
    bodies = {}
    cur = None
    bb = None
    for line in text.split("\n"):
        m = re.match(r"^fn (.+?)\((.*)\) -> (.*) \{$", line)
        if m and not line.startswith(" "):
            cur = Body(m.group(1), line)
            bodies[cur.name] = cur
            # parameter types
            for pm in re.finditer(r"(_\d+): ([^,)]+(?:<[^)]*>)?)", m.group(2)):
                pass
            bb = None
            continue
        if cur is None:
            continue
        if line == "}":
            cur = None
            continue
        m = re.match(r"^\s+let (?:mut )?(_\d+): (.*);$", line)
        if m:
            cur.types[m.group(1)] = m.group(2)
            continue
        m = re.match(r"^\s+debug (\w+) => (_\d+);$", line)
        if m:
            cur.debug[m.group(1)] = m.group(2)
            continue
        m = re.match(r"^\s+(bb\d+)( \(cleanup\))?: \{$", line)
        if m:
            bb = m.group(1)
            cur.blocks[bb] = ([], None, bool(m.group(2)))
            continue
        if bb is not None:
            s = line.strip()
            if s == "}":
                bb = None
                continue
            if not s or s.startswith("//"):
                continue
            stmts, term, cl = cur.blocks[bb]
            if s.endswith(";") and not re.match(r"^(goto|switchInt|return|unreachable|resume|drop\(|assert\()", s) and "-> [return" not in s and "-> bb" not in s and "-> unwind" not in s:
                stmts.append(s[:-1])
            else:
                cur.blocks[bb] = (stmts, s.rstrip(";"), cl)
    return bodies


# ------------------------------------------------------------------------------------------------
# places / operands
# ------------------------------------------------------------------------------------------------
def split_top(s, sep=","):
    out, depth, cur = [], 0, ""
    for ch in s:
        if ch in "([{<":
            depth += 1
        elif ch in ")]}>":
            depth -= 1
        if ch == sep and depth == 0:
            out.append(cur.strip())
            cur = ""
        else:
            cur += ch
    if cur.strip():
        out.append(cur.strip())
    return out


def strip_type(s):
    """'(_1.3: T)' -> ('_1', [3]) style parsing of a place expression; returns (base, projections, type or None)"""
    s = s.strip()
    ty = None
    proj = []
    # peel parentheses recursively
    while True:
        if s.startswith("(") and s.endswith(")"):
            inner = s[1:-1]
            # form: X.N: T   or  X as Variant   or *X
            if inner.startswith("*"):
                base, p2, _ = strip_type(inner[1:])
                return base, p2 + [("deref",)] + proj, ty
            m = re.match(r"^(.*) as (\w+)$", inner)
            if m and depth_ok(m.group(1)):
                base, p2, _ = strip_type(m.group(1))
                return base, p2 + [("variant", m.group(2))] + proj, ty
            # X.N: T  -- find the last ".N:" at depth 0
            k = find_field(inner)
            if k is None:
                raise Unrecognised("place " + s)
            lhs, n, t = k
            base, p2, _ = strip_type(lhs)
            return base, p2 + [("field", n)] + proj, t
        m = re.match(r"^\*(.*)$", s)
        if m:
            base, p2, _ = strip_type(m.group(1))
            return base, p2 + [("deref",)] + proj, ty
        m = re.match(r"^(_\d+)$", s)
        if m:
            return m.group(1), proj, ty
        raise Unrecognised("place " + s)


def depth_ok(s):
    d = 0
    for ch in s:
        if ch in "(<[":
            d += 1
        elif ch in ")>]":
            d -= 1
    return d == 0


def find_field(inner):
    depth = 0
    for i in range(len(inner) - 1, -1, -1):
        ch = inner[i]
        if ch in ")>]":
            depth += 1
        elif ch in "(<[":
            depth -= 1
        elif ch == ":" and depth == 0 and inner[i:i + 2] == ": ":
            lhs = inner[:i]
            m = re.match(r"^(.*)\.(\d+)$", lhs)
            if m:
                return m.group(1), int(m.group(2)), inner[i + 2:]
    return None


# ------------------------------------------------------------------------------------------------
# abstract values (hashable tuples)
# ------------------------------------------------------------------------------------------------
OPQ = ("OPQ",)


def V(ctor, payload=None):
    return ("V", ctor, payload)


DISCR = {"Ok": 0, "Err": 1, "None": 0, "Some": 1, "Continue": 0, "Break": 1}


class Frame:
    __slots__ = ("fn", "bb", "env", "ret_to")

    def __init__(self, fn, bb, env, ret_to):
        self.fn, self.bb, self.env, self.ret_to = fn, bb, env, ret_to

    def key(self):
        return (self.fn, self.bb, tuple(sorted(self.env.items())), self.ret_to)


def chan_of(type_str):
    """which channel an endpoint type belongs to: 'D' (results: Option<Result<..>>) or 'E' (empty data sets)"""
    m = re.search(r"(?:SyncSender|Receiver)(?:::)?<(.*)", type_str)
    inner = m.group(1) if m else type_str
    inner = inner.strip()
    if inner.startswith("std::option::Option<") or inner.startswith("Option<"):
        return "D"
    return "E"


def endpoints_in_type(t):
    """endpoint kinds destroyed when a value of this static type is dropped"""
    t = t.strip()
    if "ParallelRecordsets<" in t:
        return ["sE", "rD", "CUR"]
    m = re.match(r"^(?:std::sync::mpsc::)?SyncSender<(.*)>$", t)
    if m:
        return ["s" + chan_of("SyncSender<" + m.group(1))]
    m = re.match(r"^(?:std::sync::mpsc::)?Receiver<(.*)>$", t)
    if m:
        return ["r" + chan_of("Receiver<" + m.group(1))]
    if "SyncSender<" in t and "SendError" not in t and "closure" not in t:
        raise Unrecognised("drop of a type containing an endpoint: " + t)
    return []


class Extractor:
    def __init__(self, bodies, queue_len, n_threads=1):
        self.b = bodies
        self.QL = queue_len
        self.NTHR = n_threads
        names = list(bodies)

        def find(suffix):
            c = [n for n in names if n.endswith(suffix)]
            if len(c) != 1:
                raise Unrecognised("body %s: %d candidates" % (suffix, len(c)))
            return c[0]
        self.F_main = find("read_parallel_init")
        self.F_scope = find("read_parallel_init::{closure#0}")
        self.F_reader = find("read_parallel_init::{closure#0}::{closure#0}")
        self.F_pool = find("read_parallel_init::{closure#0}::{closure#0}::{closure#0}")
        self.F_job = find("read_parallel_init::{closure#0}::{closure#0}::{closure#0}::{closure#0}")
        nx = [n for n in names if re.search(r"parallel::<impl at .*>::next$", n)]
        nxc = [n for n in names if re.search(r"parallel::<impl at .*>::next::\{closure#0\}$", n)]
        if len(nx) != 1 or len(nxc) != 1:
            raise Unrecognised("ParallelRecordsets::next not found")
        self.F_next, self.F_nextc = nx[0], nxc[0]
        self.closure_fn = {}  # "{closure@src/parallel.rs:L:C: L:C}" -> body name
        for n, bd in bodies.items():
            m = re.search(r"\(_1: (&mut |&)?(\{closure@[^}]*\})", bd.sig)
            if m:
                self.closure_fn[m.group(2)] = n
        self.functions_encoded = [self.F_main, self.F_scope, self.F_reader, self.F_pool, self.F_job, self.F_next, self.F_nextc]

    # -------------------------------------------------------------------------------------------
    def type_of_place(self, body, place_str):
        base, proj, ty = strip_type(place_str)
        if ty:
            return ty
        if not proj:
            t = self.b[body].types.get(base)
            if t is None:
                # parameter
                m = re.search(r"\b%s: ([^,]+(?:<.*?>)?)[,)]" % base, self.b[body].sig)
                return m.group(1) if m else ""
            return t
        return ""

    def read_place(self, env, place_str):
        base, proj, _ = strip_type(place_str)
        v = env.get(base, OPQ)
        for p in proj:
            v = self.project(v, p, env)
        return v

    def project(self, v, p, env):
        if p[0] == "deref":
            if v[0] == "REF":
                return v[1] if v[1][0] != "LOCAL" else env.get(v[1][1], OPQ)
            return v
        if p[0] == "variant":
            if v[0] == "V":
                if v[1] != p[1]:
                    raise Unrecognised("variant projection %s on %s" % (p[1], v))
                return ("VP", v[2])
            return OPQ
        if p[0] == "field":
            if v[0] == "VP":
                # payload of a variant: field 0 is the payload itself
                return v[1] if p[1] == 0 and v[1] is not None else OPQ
            if v[0] in ("TUP", "CLOS"):
                fields = v[-1]
                return fields[p[1]] if p[1] < len(fields) else OPQ
            if v[0] == "RSETS":
                return ("CURTOK",) if p[1] == 2 else ("EP", ["sE", "rD"][p[1]]) if p[1] < 2 else OPQ
            return OPQ
        raise Unrecognised("projection %r" % (p,))

    def write_place(self, env, place_str, val):
        base, proj, _ = strip_type(place_str)
        if not proj:
            env[base] = val
            return
        # writes into fields are only needed for tuples built by parts; keep opaque
        cur = env.get(base, OPQ)
        env[base] = self.write_into(cur, proj, val)

    def write_into(self, cur, proj, val):
        p = proj[0]
        if p[0] == "field" and cur[0] in ("TUP", "CLOS"):
            fields = list(cur[-1])
            while len(fields) <= p[1]:
                fields.append(OPQ)
            fields[p[1]] = val if len(proj) == 1 else self.write_into(fields[p[1]], proj[1:], val)
            return cur[:-1] + (tuple(fields),)
        return cur

    def operand(self, env, s):
        s = s.strip()
        s = re.sub(r"^no_retag ", "", s)
        if s.startswith("const "):
            c = s[6:].strip()
            if c == "true":
                return ("B", True)
            if c == "false":
                return ("B", False)
            m = re.match(r"^(\d+)_(usize|u32|u64|i32|isize)$", c)
            if m:
                return ("I", int(m.group(1)))
            return OPQ
        if s.startswith("move ") or s.startswith("copy "):
            return self.read_place(env, s[5:])
        if s.startswith("&mut ") or s.startswith("&"):
            pl = s[5:] if s.startswith("&mut ") else s[1:]
            base, proj, _ = strip_type(pl)
            if not proj:
                cur = env.get(base)
                if cur is not None and cur[0] in ("I", "B"):
                    # reference to a plain number (e.g. &queue_len captured by a closure): the value
                    # itself, so that it can be read from another frame
                    return ("REF", cur)
                return ("REF", ("LOCAL", base))
            return ("REF", self.read_place(env, pl))
        return self.read_place(env, s)

    # -------------------------------------------------------------------------------------------
    def assign(self, fn, env, stmt):
        m = re.match(r"^(\S.*?) = (.*)$", stmt)
        if not m:
            if stmt.startswith("StorageLive") or stmt.startswith("StorageDead") or stmt.startswith("nop") or stmt.startswith("PlaceMention") or stmt.startswith("FakeRead") or stmt.startswith("AscribeUserType") or stmt.startswith("Retag"):
                return
            raise Unrecognised("statement: " + stmt)
        lhs, rhs = m.group(1), m.group(2)
        val = self.rvalue(fn, env, rhs)
        self.write_place(env, lhs, val)

    def rvalue(self, fn, env, rhs):
        rhs = rhs.strip()
        m = re.match(r"^(Add|Sub|Mul)\((.*)\)$", rhs)
        if m:
            a, b = [self.operand(env, x) for x in split_top(m.group(2))]
            if a[0] == "I" and b[0] == "I":
                return ("I", {"Add": a[1] + b[1], "Sub": a[1] - b[1], "Mul": a[1] * b[1]}[m.group(1)])
            raise Unrecognised("arithmetic on an untracked value in %s: %s" % (fn, rhs))
        m = re.match(r"^discriminant\((.*)\)$", rhs)
        if m:
            v = self.read_place(env, m.group(1))
            if v[0] == "V":
                return ("I", DISCR[v[1]])
            raise Unrecognised("discriminant of an untracked value in %s: %s" % (fn, rhs))
        m = re.match(r"^(\{closure@[^}]*\}) \{(.*)\}$", rhs)
        if m:
            fields = []
            for f in split_top(m.group(2)):
                fm = re.match(r"^(\w+): (.*)$", f)
                fields.append(self.operand(env, fm.group(2)))
            return ("CLOS", m.group(1), tuple(fields))
        m = re.match(r"^(?:parallel::)?ParallelRecordsets::<.*?> \{(.*)\}$", rhs)
        if m:
            fields = {}
            for f in split_top(m.group(1)):
                fm = re.match(r"^(\w+): (.*)$", f)
                fields[fm.group(1)] = self.operand(env, fm.group(2))
            cur = fields.get("current_recordset", OPQ)
            if cur[0] != "TOK":
                raise Unrecognised("ParallelRecordsets built without a tracked data set")
            return ("RSETS_NEW", cur[1])
        m = re.match(r"^std::ops::Range::<usize> \{ start: (.*), end: (.*) \}$", rhs)
        if m:
            a, b = self.operand(env, m.group(1)), self.operand(env, m.group(2))
            if a[0] != "I":
                raise Unrecognised("range start")
            if b[0] != "I":
                raise Unrecognised("range end is not a tracked integer in %s: %s" % (fn, rhs))
            return ("RANGE", a[1], b[1])
        m = re.match(r"^(?:std::result::)?Result::<.*?>::(Ok|Err)\((.*)\)$", rhs)
        if m:
            return V(m.group(1), self.operand(env, m.group(2)))
        m = re.match(r"^(?:std::option::)?Option::<.*?>::Some\((.*)\)$", rhs)
        if m:
            return V("Some", self.operand(env, m.group(1)))
        if re.match(r"^(?:std::option::)?Option::<.*>::None$", rhs):
            return V("None")
        m = re.match(r"^\((.*)\)$", rhs)
        if m and not re.match(r"^\(_\d+[\. ]", rhs) and not rhs.startswith("(*") and " as " not in rhs.split(":")[0]:
            parts = split_top(m.group(1))
            try:
                return ("TUP", tuple(self.operand(env, p) for p in parts if p))
            except Unrecognised:
                pass
        # plain operand / place
        try:
            return self.operand(env, rhs)
        except Unrecognised:
            raise Unrecognised("rvalue in %s: %s" % (fn, rhs))


def short(fn):
    return {"read_parallel_init": "main"}.get(fn, fn)


# ------------------------------------------------------------------------------------------------
# abstract interpretation of a thread role -> automaton
# ------------------------------------------------------------------------------------------------
CALL_RE = re.compile(r"^(?:(\S.*?) = )?(.+?)\((.*)\) -> \[return: (bb\d+)(?:, unwind[^\]]*)?\]$")
CALL_NORET_RE = re.compile(r"^(?:(\S.*?) = )?(.+?)\((.*)\) -> (?:unwind .*)$")
CALLMAX_EXTRA = 2


def parse_call(term):
    """'_d = callee(args) -> [return: bbN, unwind ...]' -> (dest, callee, [args], bbN)"""
    m = re.match(r"^(.*) -> \[return: (bb\d+)(?:, unwind[^\]]*)?\]$", term)
    if not m:
        return None
    body, nbb = m.group(1), m.group(2)
    if not body.endswith(")"):
        return None
    depth = 0
    i = len(body) - 1
    while i >= 0:
        if body[i] == ")":
            depth += 1
        elif body[i] == "(":
            depth -= 1
            if depth == 0:
                break
        i -= 1
    if i < 0:
        return None
    head, args = body[:i], body[i + 1:-1]
    dest = None
    m2 = re.match(r"^(\S+|\(.*?\)) = (.*)$", head)
    if m2 and not m2.group(1).startswith("<"):
        dest, head = m2.group(1), m2.group(2)
    return dest, head, split_top(args), nbb


def freeze(stack):
    return tuple((f[0], f[1], tuple(sorted(f[2].items())), f[3]) for f in stack)


class Automaton:
    def __init__(self, role):
        self.role = role
        self.states = {}
        self.edges = []  # (src, label, dst)
        self.init = None
        self.spawned = None      # closure value passed to spawn (main role)
        self.job_kinds = {}      # closure body name -> closure value passed to execute (reader role)
        self.pool_size = None
        self.regs = set()

    def sid(self, key):
        if key not in self.states:
            self.states[key] = len(self.states)
        return self.states[key]


def build_role(ex, role, init_stack, kmax):
    """explores the local state space of one thread role; returns an Automaton"""
    A = Automaton(role)
    A.init = A.sid(freeze(init_stack))
    work = [init_stack]
    seen = {freeze(init_stack)}
    while work:
        stack = work.pop()
        src = A.sid(freeze(stack))
        for label, nstack in successors(ex, A, stack, kmax):
            if nstack is None:
                dst = A.sid(("END", label))
            else:
                k = freeze(nstack)
                dst = A.sid(k)
                if k not in seen:
                    seen.add(k)
                    work.append(nstack)
            A.edges.append((src, label, dst))
        if len(A.states) > 20000:
            raise Unrecognised("local state space of %s does not close" % role)
    return compress(A)


def compress(A):
    """collapse states whose only outgoing edge is a tau edge"""
    out = {}
    for s, l, d in A.edges:
        out.setdefault(s, []).append((l, d))
    fwd = {}
    for s, es in out.items():
        if len(es) == 1 and es[0][0] == ("tau",):
            fwd[s] = es[0][1]

    def res(s):
        seen = set()
        while s in fwd and s not in seen:
            seen.add(s)
            s = fwd[s]
        return s
    edges = []
    for s, l, d in A.edges:
        if s in fwd:
            continue
        edges.append((s, l, res(d)))
    A.init = res(A.init)
    # renumber reachable states
    reach, stack = {A.init}, [A.init]
    adj = {}
    for s, l, d in edges:
        adj.setdefault(s, []).append((l, d))
    while stack:
        s = stack.pop()
        for l, d in adj.get(s, []):
            if d not in reach:
                reach.add(d)
                stack.append(d)
    ren = {s: i for i, s in enumerate(sorted(reach))}
    A.edges = sorted({(ren[s], l, ren[d]) for s, l, d in edges if s in reach}, key=lambda e: (e[0], str(e[1]), e[2]))
    A.init = ren[A.init]
    A.n = len(ren)
    # labels become sequences of primitive actions
    A.edges = [(s, (l,), d) for s, l, d in A.edges]
    glue_local(A)
    A.has_out = {s for s, _, _ in A.edges}
    return A


# Reduction of the interleaving space (Lipton): an action may be executed atomically together with
# the action that precedes it in the same thread if it is
#  * LOCAL: it touches only state private to the executing thread (its registers, ghost counters
#    nobody else reads, the consumer's own choices) and is never blocked; or
#  * a LEFT mover: never blocked and it can only ENABLE actions of other threads, never disable
#    one or change their effect: dropping a *sender* (only `recv .. closed` guards look at the
#    sender counts, and they require zero), the end of a thread or job, `execute`/`spawn`
#    (create a runnable job/thread), `clone` of a sender (the cloner holds a live sender, so the
#    count is >= 1 before and after and no `== 0` guard changes), channel creation (before any
#    other thread exists).
# Dropping a receiver, sends, receives, joins are NOT glued.  No reachable state at the remaining
# control points is lost.
LOCAL = {"tau", "init_r", "init_d", "consumer_enter", "c_next", "c_stop", "deliver", "deliver_err", "deliver_none",
         "replace_cur", "pool_enter", "work", "fill"}
LEFT = {"end", "execute", "spawn", "clone", "chan"}


def gluable(prim):
    if prim[0] in LOCAL or prim[0] in LEFT:
        return True
    if prim[0] == "drop":
        return all(ep in ("sD", "sE") for ep in prim[1])
    return False


def glue_local(A):
    changed = True
    while changed:
        changed = False
        out = {}
        inc = {}
        for e in A.edges:
            out.setdefault(e[0], []).append(e)
            inc.setdefault(e[2], []).append(e)
        for q in sorted(out):
            if q == A.init or not inc.get(q):
                continue
            es = out[q]
            if any(e[2] == q for e in es):
                continue
            if all(gluable(e[1][0]) for e in es):
                new = [e for e in A.edges if e[0] != q and e[2] != q]
                for (p, L, _) in inc[q]:
                    for (_, L2, r) in es:
                        new.append((p, L + L2, r))
                A.edges = new
                changed = True
                break
    # renumber
    used = sorted({A.init} | {e[0] for e in A.edges} | {e[2] for e in A.edges})
    ren = {s: i for i, s in enumerate(used)}
    A.edges = sorted({(ren[s], L, ren[d]) for s, L, d in A.edges}, key=lambda e: (e[0], str(e[1]), e[2]))
    A.init = ren[A.init]
    A.n = len(ren)


def successors(ex, A, stack, kmax):
    fn, bb, env, ret_to = stack[-1]
    env = dict(env)
    rest = stack[:-1]

    def cont(nbb, nenv=None):
        return rest + [(fn, nbb, env if nenv is None else nenv, ret_to)]

    if fn == "CONSUMER":
        return consumer_succ(ex, A, stack, kmax)
    body = ex.b[fn]
    stmts, term, cleanup = body.blocks[bb]
    if cleanup:
        raise Unrecognised("cleanup block reached in " + fn)
    for st in stmts:
        ex.assign(fn, env, st)
    if term is None:
        raise Unrecognised("block without terminator")
    m = re.match(r"^goto -> (bb\d+)$", term)
    if m:
        return [(("tau",), cont(m.group(1)))]
    m = re.match(r"^switchInt\((.*)\) -> \[(.*)\]$", term)
    if m:
        v = ex.operand(env, m.group(1))
        if v[0] == "B":
            n = 1 if v[1] else 0
        elif v[0] == "I":
            n = v[1]
        else:
            raise Unrecognised("switchInt on an untracked value in %s %s: %s" % (fn, bb, term))
        tgt = None
        for part in split_top(m.group(2)):
            k, b2 = part.split(": ")
            if k == "otherwise":
                if tgt is None:
                    tgt = b2
            elif int(k) == n:
                tgt = b2
        return [(("tau",), cont(tgt))]
    if term == "return":
        rv = env.get("_0", OPQ)
        if not rest:
            return [(("end", summarize(rv)), None)]
        cfn, cbb, cenv, cret = rest[-1]
        nb, dest, wrap = ret_to
        cenv = dict(cenv)
        lab = ("tau",)
        if wrap == "some":
            rv = V("Some", rv)
        elif wrap == "scope_ok":
            rv = V("Ok", rv)
            lab = ("scope_exit",)
        elif wrap == "pool_exit":
            lab = ("pool_exit",)
        elif wrap == "consumer":
            lab = ("tau",)
        if dest:
            if cfn == "CONSUMER":
                cenv[dest] = rv
            else:
                ex.write_place(cenv, dest, rv)
        return [(lab, rest[:-1] + [(cfn, nb, cenv, cret)])]
    if term == "unreachable":
        raise Unrecognised("unreachable reached in %s %s" % (fn, bb))
    m = re.match(r"^drop\((.*)\) -> \[return: (bb\d+)(?:, unwind[^\]]*)?\]$", term)
    if m:
        ty = ex.type_of_place(fn, m.group(1))
        eps = endpoints_in_type(ty)
        lab = ("drop", tuple(eps)) if eps else ("tau",)
        return [(lab, cont(m.group(2)))]
    pc = parse_call(term)
    if not pc:
        raise Unrecognised("terminator in %s %s: %s" % (fn, bb, term))
    dest, callee, args, nbb = pc

    def ret(val, label=("tau",)):
        e2 = dict(env)
        if dest:
            ex.write_place(e2, dest, val)
        return (label, cont(nbb, e2))

    def newreg(tag):
        r = "%s.%s.%s" % (A.role, bb, tag)
        A.regs.add(r)
        return r

    c = callee
    if re.match(r"^std::sync::mpsc::sync_channel::<", c):
        ch = chan_of("Receiver::<" + c.split("sync_channel::<", 1)[1])
        cap = ex.operand(env, args[0])
        if cap[0] != "I":
            raise Unrecognised("capacity of a channel is not a tracked integer")
        return [ret(("TUP", (("EP", "s" + ch), ("EP", "r" + ch))), ("chan", ch, cap[1]))]
    if c.startswith("crossbeam_utils::thread::scope::<"):
        clo = ex.operand(env, args[0])
        if clo[0] != "CLOS" or ex.closure_fn.get(clo[1]) != ex.F_scope:
            raise Unrecognised("thread::scope argument")
        fr = (ex.F_scope, "bb0", {"_1": clo, "_2": OPQ}, (nbb, dest, "scope_ok"))
        return [(("tau",), rest + [(fn, bb, env, ret_to), fr])]
    if re.match(r"^crossbeam_utils::thread::Scope::<.*>::spawn::<", c):
        clo = ex.operand(env, args[1])
        if clo[0] != "CLOS" or ex.closure_fn.get(clo[1]) != ex.F_reader:
            raise Unrecognised("spawn argument")
        A.spawned = clo
        return [ret(("JH",), ("spawn",))]
    if re.match(r"^crossbeam_utils::thread::ScopedJoinHandle::<.*>::join$", c):
        return [ret(V("Ok", V("Ok", OPQ)), ("join", "ok")), ret(V("Ok", V("Err", ("INITERR", "r"))), ("join", "err"))]
    if re.match(r"^Result::<.*>::unwrap$", c) or re.match(r"^std::result::Result::<.*>::unwrap$", c):
        v = ex.operand(env, args[0])
        if v[0] == "V" and v[1] == "Ok":
            return [ret(v[2] if v[2] is not None else OPQ)]
        if v[0] == "V" and v[1] == "Err":
            return [(("panic", "%s %s: unwrap on Err" % (short(fn), bb)), None)]
        raise Unrecognised("unwrap of an untracked value in %s %s" % (fn, bb))
    if re.match(r"^<(?:std::result::)?Result<.*> as (?:std::ops::)?Try>::branch$", c):
        v = ex.operand(env, args[0])
        if v[0] == "V" and v[1] == "Ok":
            return [ret(V("Continue", v[2]))]
        if v[0] == "V" and v[1] == "Err":
            return [ret(V("Break", V("Err", v[2])))]
        raise Unrecognised("Try::branch of an untracked value in %s %s" % (fn, bb))
    if re.match(r"^<(?:std::option::)?Option<.*> as (?:std::ops::)?Try>::branch$", c):
        v = ex.operand(env, args[0])
        if v[0] == "V" and v[1] == "Some":
            return [ret(V("Continue", v[2]))]
        if v[0] == "V" and v[1] == "None":
            return [ret(V("Break", V("None")))]
        raise Unrecognised("Option Try::branch of an untracked value in %s %s" % (fn, bb))
    if re.match(r"^<(?:std::option::)?Option<.*> as (?:std::ops::)?FromResidual<.*>>::from_residual$", c):
        return [ret(V("None"))]
    if re.match(r"^<(?:std::result::)?Result<.*> as (?:std::ops::)?FromResidual<.*>>::from_residual$", c):
        v = ex.operand(env, args[0])
        if v[0] == "V" and v[1] == "Err":
            return [ret(V("Err", v[2]))]
        raise Unrecognised("from_residual")
    if re.match(r"^(?:std::result::)?Result::<.*>::ok$", c):
        v = ex.operand(env, args[0])
        if v[0] == "V":
            return [ret(V("Some", v[2]) if v[1] == "Ok" else V("None"))]
        raise Unrecognised("Result::ok of an untracked value")
    if re.match(r"^(?:std::result::)?Result::<.*>::is_err$", c):
        v = ex.operand(env, args[0])
        if v[0] == "REF" and v[1][0] == "LOCAL":
            v = env.get(v[1][1], OPQ)
        if v[0] == "V":
            return [ret(("B", v[1] == "Err"))]
        raise Unrecognised("is_err of an untracked value")
    if re.match(r"^<(?:std::ops::)?Range<usize> as (?:std::iter::)?IntoIterator>::into_iter$", c):
        return [ret(ex.operand(env, args[0]))]
    if re.match(r"^<(?:std::ops::)?Range<usize> as (?:std::iter::)?Iterator>::next$", c):
        r = ex.operand(env, args[0])
        if r[0] != "REF" or r[1][0] != "LOCAL":
            raise Unrecognised("Range::next receiver")
        var = r[1][1]
        rng = env.get(var)
        if not rng or rng[0] != "RANGE":
            raise Unrecognised("Range::next on an untracked range")
        end = rng[2]
        e2 = dict(env)
        if rng[1] < end:
            e2[var] = ("RANGE", rng[1] + 1, rng[2])
            val = V("Some", ("I", rng[1]))
        else:
            val = V("None")
        if dest:
            ex.write_place(e2, dest, val)
        return [(("tau",), cont(nbb, e2))]
    if re.match(r"^<Di as (?:std::ops::)?FnMut<\(\)>>::call_mut$", c):
        r = newreg("init_d")
        return [ret(V("Ok", ("TOK", r)), ("init_d", "ok", r)), ret(V("Err", ("INITERR", "d")), ("init_d", "err"))]
    if re.match(r"^<Ri as (?:std::ops::)?FnOnce<\(\)>>::call_once$", c):
        return [ret(V("Ok", OPQ), ("init_r", "ok")), ret(V("Err", ("INITERR", "r")), ("init_r", "err"))]
    if re.match(r"^<F as (?:std::ops::)?FnOnce<\(&mut (?:parallel::)?ParallelRecordsets<", c):
        a = ex.operand(env, args[1])
        if a[0] != "TUP" or a[1][0][0] != "REF" or a[1][0][1][0] != "LOCAL":
            raise Unrecognised("consumer argument")
        var = a[1][0][1][1]
        rs = env.get(var)
        if not rs or rs[0] != "RSETS_NEW":
            raise Unrecognised("consumer called without a fresh ParallelRecordsets")
        e2 = dict(env)
        e2[var] = ("RSETS",)
        fr = ("CONSUMER", "c0", {"n": ("I", 0)}, (nbb, dest, "consumer"))
        return [(("consumer_enter", rs[1]), rest + [(fn, bb, e2, ret_to), fr])]
    if re.match(r"^<W as (?:std::ops::)?Fn<\(&mut ", c):
        a = ex.operand(env, args[1])
        tok = None
        if a[0] == "TUP" and a[1] and a[1][0][0] == "REF":
            t = a[1][0][1]
            if t[0] == "LOCAL":
                t = env.get(t[1], OPQ)
            if t[0] == "TOK":
                tok = t[1]
        if tok is None:
            raise Unrecognised("work() not applied to a tracked data set")
        return [ret(("OUT", tok), ("work", tok))]
    if re.match(r"^<R as parallel::Reader>::fill_data$", c):
        a = ex.operand(env, args[1])
        t = a
        if a[0] == "REF":
            t = a[1]
            if t[0] == "LOCAL":
                t = env.get(t[1], OPQ)
        if t[0] != "TOK":
            raise Unrecognised("fill_data() not applied to a data set received back from the consumer")
        return [ret(V("None"), ("fill", "none", t[1])), ret(V("Some", V("Ok", OPQ)), ("fill", "ok", t[1])),
                ret(V("Some", V("Err", ("ERRV",))), ("fill", "err", t[1]))]
    m2 = re.match(r"^(?:std::sync::mpsc::)?Receiver::<(.*)>::recv$", c)
    if m2:
        ch = chan_of("Receiver::<" + m2.group(1))
        if ch == "E":
            r = newreg("recvE")
            return [ret(V("Ok", ("TOK", r)), ("recv_E", "ok", r)), ret(V("Err", OPQ), ("recv_E", "closed"))]
        rt, ro = newreg("mtok"), newreg("mout")
        return [ret(V("Err", OPQ), ("recv_D", "closed")),
                ret(V("Ok", V("None")), ("recv_D", "none")),
                ret(V("Ok", V("Some", V("Ok", ("TUP", (("TOK", rt), ("OUTV", ro)))))), ("recv_D", "ok", rt, ro)),
                ret(V("Ok", V("Some", V("Err", ("ERRV",)))), ("recv_D", "err"))]
    m2 = re.match(r"^(?:std::sync::mpsc::)?SyncSender::<(.*)>::send$", c)
    if m2:
        ch = chan_of("SyncSender::<" + m2.group(1))
        p = ex.operand(env, args[1])
        if ch == "E":
            if p[0] != "TOK":
                raise Unrecognised("send on the recycle channel of something that is not a tracked data set")
            return [ret(V("Ok", OPQ), ("send_E", "ok", p[1])), ret(V("Err", OPQ), ("send_E", "err", p[1]))]
        if p == V("None"):
            kind = ("none",)
        elif p[0] == "V" and p[1] == "Some" and p[2][0] == "V" and p[2][1] == "Err":
            if p[2][2] != ("ERRV",):
                raise Unrecognised("the error sent is not the error fill_data returned")
            kind = ("err",)
        elif p[0] == "V" and p[1] == "Some" and p[2][0] == "V" and p[2][1] == "Ok" and p[2][2][0] == "TUP" and p[2][2][1][0][0] == "TOK" and p[2][2][1][1][0] == "OUT":
            kind = ("ok", p[2][2][1][0][1], p[2][2][1][1][1])
        else:
            raise Unrecognised("payload of a send on the result channel: %r" % (p,))
        return [ret(V("Ok", OPQ), ("send_D", "ok") + kind), ret(V("Err", OPQ), ("send_D", "fail") + kind)]
    m2 = re.match(r"^<(?:std::sync::mpsc::)?SyncSender<(.*)> as (?:std::clone::)?Clone>::clone$", c)
    if m2:
        ch = chan_of("SyncSender::<" + m2.group(1))
        return [ret(("EP", "s" + ch), ("clone", "s" + ch))]
    m2 = re.match(r"^std::mem::drop::<(.*)>$", c)
    if m2:
        eps = endpoints_in_type(m2.group(1))
        return [ret(OPQ, ("drop", tuple(eps)) if eps else ("tau",))]
    if re.match(r"^std::mem::replace::<", c):
        d = ex.operand(env, args[0])
        s = ex.operand(env, args[1])
        if d != ("REF", ("CURTOK",)) or s[0] != "TOK":
            raise Unrecognised("mem::replace outside the current-record-set swap")
        r = newreg("prev")
        return [ret(("TOK", r), ("replace_cur", s[1], r))]
    if re.match(r"^(?:scoped_threadpool::)?Pool::new$", c):
        n = ex.operand(env, args[0])
        if n[0] != "I":
            raise Unrecognised("size of the thread pool is not a tracked integer")
        A.pool_size = n[1]
        return [ret(OPQ)]
    if re.match(r"^(?:scoped_threadpool::)?Pool::scoped::<", c):
        clo = ex.operand(env, args[1])
        if clo[0] != "CLOS" or ex.closure_fn.get(clo[1]) != ex.F_pool:
            raise Unrecognised("Pool::scoped argument")
        # references to the reader closure's captured fields are resolved here
        fr = (ex.F_pool, "bb0", {"_1": clo, "_2": OPQ}, (nbb, dest, "pool_exit"))
        return [(("pool_enter",), rest + [(fn, bb, env, ret_to), fr])]
    if re.match(r"^scoped_threadpool::Scope::<.*>::execute::<", c):
        clo = ex.operand(env, args[1])
        if clo[0] != "CLOS" or clo[1] not in ex.closure_fn:
            raise Unrecognised("execute argument")
        toks = [f for f in clo[2] if f[0] == "TOK"]
        if len(toks) > 1:
            raise Unrecognised("job closure owns more than one data set")
        # jobs may be of several kinds (closure bodies); each kind gets its own automaton
        kind = ex.closure_fn[clo[1]]
        if kind not in A.job_kinds:
            A.job_kinds[kind] = clo
        k = list(A.job_kinds).index(kind)
        return [ret(OPQ, ("execute", k, toks[0][1] if toks else None))]
    if re.match(r"^scoped_threadpool::Scope::<.*>::join_all$", c):
        return [ret(OPQ, ("join_all",))]
    m2 = re.match(r"^(?:std::option::)?Option::<.*>::map::<.*?(\{closure@[^}]*\})>$", c)
    if m2:
        v = ex.operand(env, args[0])
        clo = ex.operand(env, args[1])
        if v == V("None"):
            return [ret(V("None"))]
        if v[0] == "V" and v[1] == "Some" and clo[0] == "CLOS":
            cfn = ex.closure_fn.get(clo[1])
            if cfn is None:
                raise Unrecognised("Option::map closure")
            fr = (cfn, "bb0", {"_1": clo, "_2": v[2]}, (nbb, dest, "some"))
            return [(("tau",), rest + [(fn, bb, env, ret_to), fr])]
        raise Unrecognised("Option::map of an untracked value")
    raise Unrecognised("call in %s %s: %s" % (fn, bb, callee))


def summarize(v):
    if v[0] == "V":
        return v[1] + ("(" + summarize(v[2]) + ")" if v[2] is not None and v[2][0] == "V" else "")
    return v[0]


def consumer_succ(ex, A, stack, kmax):
    """environment: any program that calls next() up to kmax+2 times and may return at any point,
    but does not call next() again after the end marker"""
    fn, st, env, ret_to = stack[-1]
    rest = stack[:-1]
    n = env["n"][1]
    if st == "c0":
        out = [(("c_stop",), rest + [("CONSUMER", "ret", env, ret_to)])]
        if n < kmax + CALLMAX_EXTRA:
            e2 = dict(env)
            e2["n"] = ("I", n + 1)
            fr = (ex.F_next, "bb0", {"_1": ("REF", ("RSETS",))}, ("c1", "r", "tau"))
            out.append((("c_next",), rest + [("CONSUMER", "c1", e2, ret_to), fr]))
        return out
    if st == "c1":
        r = env.get("r")
        e2 = {"n": env["n"]}
        if r == V("None"):
            return [(("deliver_none",), rest + [("CONSUMER", "ret", e2, ret_to)])]
        if r[0] == "V" and r[1] == "Some" and r[2][0] == "V" and r[2][1] == "Ok":
            t = r[2][2]
            if t[0] != "TUP" or t[1][0] != ("REF", ("CURTOK",)) or t[1][1][0] != "OUTV":
                raise Unrecognised("next() does not hand out the current record set with the received output")
            return [(("deliver", t[1][1][1]), rest + [("CONSUMER", "c0", e2, ret_to)])]
        if r[0] == "V" and r[1] == "Some" and r[2][0] == "V" and r[2][1] == "Err":
            if r[2][2] != ("ERRV",):
                raise Unrecognised("next() returns another error than the one received")
            return [(("deliver_err",), rest + [("CONSUMER", "c0", e2, ret_to)])]
        raise Unrecognised("result of next(): %r" % (r,))
    if st == "ret":
        cfn, cbb, cenv, cret = rest[-1]
        nb, dest, _ = ret_to
        cenv = dict(cenv)
        if dest:
            ex.write_place(cenv, dest, OPQ)
        return [(("tau",), rest[:-1] + [(cfn, nb, cenv, cret)])]
    raise Unrecognised("consumer state")


def extract(mir_text, queue_len, kmax, n_threads=1):
    bodies = parse_mir(mir_text)
    ex = Extractor(bodies, queue_len, n_threads)
    # the two numeric parameters of read_parallel_init are concrete per configuration
    dbg = bodies[ex.F_main].debug
    if "queue_len" not in dbg or "n_threads" not in dbg:
        raise Unrecognised("parameters queue_len / n_threads of read_parallel_init not found")
    env0 = {dbg["queue_len"]: ("I", queue_len), dbg["n_threads"]: ("I", n_threads)}
    main = build_role(ex, "main", [(ex.F_main, "bb0", env0, None)], kmax)
    if main.spawned is None:
        raise Unrecognised("no reader thread is spawned")
    reader = build_role(ex, "reader", [(ex.F_reader, "bb0", {"_1": main.spawned, "_2": OPQ}, None)], kmax)
    if not reader.job_kinds:
        raise Unrecognised("no job is ever executed")
    jobs = []
    for kind, clo in reader.job_kinds.items():
        fields = tuple(("TOK", "job.tok") if f[0] == "TOK" else f for f in clo[2])
        j = build_role(ex, "job", [(kind, "bb0", {"_1": ("CLOS", clo[1], fields)}, None)], kmax)
        j.regs.add("job.tok")
        jobs.append(j)
        if kind not in ex.functions_encoded:
            ex.functions_encoded.append(kind)
    job = jobs[0]
    job.kinds = jobs
    return ex, main, reader, job


if __name__ == "__main__":
    txt = open(sys.argv[1]).read()
    ex, main, reader, job = extract(txt, int(sys.argv[2]) if len(sys.argv) > 2 else 2, 2, 2)
    for A in [main, reader] + job.kinds:
        print("== %s: %d states, %d edges, init %d" % (A.role, A.n, len(A.edges), A.init))
        for s, l, d in A.edges:
            print("   %3d --%s--> %d" % (s, " ; ".join(str(x) for x in l), d))

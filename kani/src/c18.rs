//! C18 — steady-state reading allocates nothing and keeps the buffer size.
//! Heap allocations are counted by stubbing the allocator entry points (Kani stubbing); the
//! steady-state kernels must leave the counter unchanged.
use crate::fak::{fa_reader, FaState};
use crate::fqk::*;
use crate::nd::Nd;
use crate::spec::*;
use crate::src::*;
use std::alloc::{GlobalAlloc, Layout, System};

pub static mut ALLOCS: usize = 0;

pub unsafe fn counting_alloc(layout: Layout) -> *mut u8 {
    ALLOCS += 1;
    System.alloc(layout)
}
pub unsafe fn counting_alloc_zeroed(layout: Layout) -> *mut u8 {
    ALLOCS += 1;
    System.alloc_zeroed(layout)
}
pub unsafe fn counting_realloc(ptr: *mut u8, layout: Layout, new_size: usize) -> *mut u8 {
    ALLOCS += 1;
    System.realloc(ptr, layout, new_size)
}

fn allocs() -> usize {
    unsafe { ALLOCS }
}

fn inside(s: &[u8], buf: &[u8]) -> bool {
    let a = s.as_ptr() as usize;
    let b = buf.as_ptr() as usize;
    s.is_empty() || (a >= b && a + s.len() <= b + buf.len())
}

/// witness that the counting stubs are in force: a deliberate allocation is counted
pub fn witness<N: Nd>(nd: &mut N) {
    let before = allocs();
    let n = nd.usize_in(1, 4);
    let v: Vec<u8> = Vec::with_capacity(n);
    vassert!(allocs() > before, "C18 harness self-check: an allocation is counted");
    let mut w: Vec<usize> = Vec::new();
    let b2 = allocs();
    w.push(1);
    vassert!(allocs() > b2, "C18 harness self-check: growth of an empty vector is counted");
    std::mem::forget(v);
    std::mem::forget(w);
    cover!(true, "reached");
}

/// FASTA: search + increment_record on a warmed reader (line-end vector already large enough)
pub fn fa_steady<N: Nd, const F: usize>(nd: &mut N) {
    use seq_io::fasta::Record;
    let file: [u8; F] = any_file::<N, F>(nd);
    let n = nd.usize_in(1, F);
    let h = nd.usize_in(0, n - 1);
    nd.assume(file[h] == b'>');
    let f = &file[..n];
    let exp = fa_record(f, h);
    nd.assume(!exp.overflow);
    let br = window::<F>(Src::plain(file, n), F + 1, 0);
    let st = FaState { start: h, search_pos: h, line: 1, byte: h as u64, state: 1 };
    // warm-up: earlier records left a line-end vector of capacity 8 (>= FA_MAXL)
    let mut r = fa_reader(br, &st, Vec::with_capacity(8));
    let cap0 = r.verif_buf_reader().capacity();
    let vcap0 = r.verif_seq_pos_capacity();
    let before = allocs();
    let res = r.verif_search();
    std::mem::forget(res);
    {
        let rec = r.verif_current_record();
        let buf = r.verif_buf_reader().buffer();
        vassert!(inside(rec.head(), buf), "C18 the header is a view into the reader's buffer");
        vassert!(inside(rec.seq(), buf), "C18 the sequence is a view into the reader's buffer");
    }
    r.verif_increment_record();
    vassert!(allocs() == before, "C18 steady-state FASTA parsing performs no heap allocation");
    vassert!(r.verif_buf_reader().capacity() == cap0, "C18 steady-state FASTA parsing keeps the buffer capacity");
    vassert!(r.verif_seq_pos_capacity() == vcap0, "C18 the line-end vector is reused in place");
    cover!(exp.nends >= 3, "record with two sequence lines");
    std::mem::forget(r);
}

/// FASTQ: search + increment_record
pub fn fq_steady<N: Nd, const F: usize>(nd: &mut N) {
    use seq_io::fastq::Record;
    let file: [u8; F] = any_file::<N, F>(nd);
    let n = nd.usize_in(0, F);
    let p = nd.usize_in(0, n);
    let br = window::<F>(Src::plain(file, n), F + 1, 0);
    let st = FqState { pos0: p, pos1: 0, seq: 0, sep: 0, qual: 0, inc: 0, line: 1, byte: p as u64, state: 1 };
    let mut r = fq_reader(br, &st);
    let cap0 = r.verif_buf_reader().capacity();
    let before = allocs();
    let res = r.verif_search();
    let found = matches!(res, Ok(true));
    // errors allocate their id string; steady state = valid records
    if found {
        {
            let rec = r.verif_current_record();
            let buf = r.verif_buf_reader().buffer();
            vassert!(inside(rec.head(), buf) && inside(rec.seq(), buf) && inside(rec.qual(), buf), "C18 the fields are views into the reader's buffer");
        }
        r.verif_increment_record();
        vassert!(allocs() == before, "C18 steady-state FASTQ parsing performs no heap allocation");
        vassert!(r.verif_buf_reader().capacity() == cap0, "C18 steady-state FASTQ parsing keeps the buffer capacity");
    }
    cover!(found, "valid record");
    std::mem::forget(res);
    std::mem::forget(r);
}

/// compaction + refill (the other half of the steady state) allocate nothing
pub fn refill_steady<N: Nd, const F: usize, const CAP: usize>(nd: &mut N) {
    let file: [u8; F] = any_file::<N, F>(nd);
    let start = nd.usize_in(1, CAP - 1);
    let br = window::<F>(Src::plain(file, F), CAP, 0);
    let st = FaState { start, search_pos: CAP, line: 1, byte: start as u64, state: 2 };
    let mut v = Vec::with_capacity(8);
    v.push(start);
    let mut r = fa_reader(br, &st, v);
    let before = allocs();
    r.verif_make_room();
    let res = seq_io::verif_fill_buf(r.verif_buf_reader_mut());
    std::mem::forget(res);
    vassert!(allocs() == before, "C18 compaction and refill perform no heap allocation");
    vassert!(r.verif_buf_reader().capacity() == CAP, "C18 compaction and refill keep the buffer capacity");
    vassert!(r.verif_buf_reader().buffer().len() == if F - start < CAP { F - start } else { CAP }, "C18 the refill fills the buffer again (or exhausts the source)");
    cover!(true, "reached");
    std::mem::forget(r);
}

pub fn fa_steady_f8<N: Nd>(nd: &mut N) {
    fa_steady::<N, 8>(nd)
}
pub fn fq_steady_f9<N: Nd>(nd: &mut N) {
    fq_steady::<N, 9>(nd)
}
pub fn refill_steady_f8_c5<N: Nd>(nd: &mut N) {
    refill_steady::<N, 8, 5>(nd)
}

harnesses! {
    /// @meta props=C18 tier=quick kind=K timeout=600 mem=8 unwind=6 bounds="self-check of the allocation-counting stubs"
    #[kani::stub(std::alloc::alloc, crate::c18::counting_alloc)]
    #[kani::stub(std::alloc::alloc_zeroed, crate::c18::counting_alloc_zeroed)]
    #[kani::stub(std::alloc::realloc, crate::c18::counting_realloc)]
    c18_witness => witness;
    /// @meta props=C18 tier=quick kind=K timeout=1500 mem=12 unwind=11 bounds="fasta search + increment_record from a header at every offset of every file <= 8 bytes, warmed line-end vector (capacity 8), allocator entry points counted"
    #[kani::stub(std::alloc::alloc, crate::c18::counting_alloc)]
    #[kani::stub(std::alloc::alloc_zeroed, crate::c18::counting_alloc_zeroed)]
    #[kani::stub(std::alloc::realloc, crate::c18::counting_realloc)]
    c18_fa_steady => fa_steady_f8;
    /// @meta props=C18 tier=quick kind=K timeout=1500 mem=12 unwind=12 bounds="fastq search + increment_record at every offset of every file <= 9 bytes, allocator entry points counted"
    #[kani::stub(std::alloc::alloc, crate::c18::counting_alloc)]
    #[kani::stub(std::alloc::alloc_zeroed, crate::c18::counting_alloc_zeroed)]
    #[kani::stub(std::alloc::realloc, crate::c18::counting_realloc)]
    #[kani::stub(std::string::String::from_utf8_lossy, crate::src::stub_lossy_empty)]
    c18_fq_steady => fq_steady_f9;
    /// @meta props=C18 tier=quick kind=K timeout=1500 mem=12 unwind=10 unwindset="seq_io::fill_buf:3" bounds="fasta make_room + fill_buf on a full buffer of capacity 5 over every 8-byte file, allocator entry points counted"
    #[kani::stub(std::alloc::alloc, crate::c18::counting_alloc)]
    #[kani::stub(std::alloc::alloc_zeroed, crate::c18::counting_alloc_zeroed)]
    #[kani::stub(std::alloc::realloc, crate::c18::counting_realloc)]
    c18_refill_steady => refill_steady_f8_c5;
}

//! lib.rs kernel: `fill_buf` under every read chunking, interrupt pattern and injected fault
//! (C03, C14; shared by both readers).
use crate::fqk::any_file;
use crate::nd::Nd;
use crate::src::*;
use buffer_redux::BufReader;
use std::io::BufRead;

/// buffer == file[from .. from+len]
fn window_is(b: &[u8], file: &[u8], from: usize) -> bool {
    let mut ok = true;
    let mut i = 0;
    while i < file.len() {
        if i < b.len() && b[i] != file[from + i] {
            ok = false;
        }
        i += 1;
    }
    ok
}

/// `fill_buf` after the buffer already holds the first c0 bytes (as after compaction): for
/// every chunking and interrupt pattern the buffer ends up holding file[skip .. min(skip+cap, n)]
pub fn k_fill_buf<N: Nd, const F: usize, const CAP: usize, const FAULT: bool>(nd: &mut N) {
    let file: [u8; F] = any_file::<N, F>(nd);
    let n = nd.usize_in(0, F);
    nd.note("file", &file[..n]);
    nd.note_num("cap", CAP as u64);
    let mut src = Src::<F>::chunked(nd, file, n).with_interrupts(nd);
    // first read: not interrupted (it only builds the pre-state)
    src.intr[0] = false;
    if FAULT {
        src = src.with_fault(nd);
        nd.assume(src.fault_at >= 1);
    }
    let mut br = BufReader::with_capacity(CAP, src);
    let r0 = br.read_into_buf();
    let c0 = match &r0 {
        Ok(c) => *c,
        Err(_) => 0,
    };
    std::mem::forget(r0);
    // drop a prefix and compact, as the readers do before refilling
    let skip = nd.usize_in(0, c0);
    br.consume(skip);
    br.make_room();
    let before = br.buffer().len();
    vassert!(before == c0 - skip, "C03 harness pre-state");
    let res = seq_io::verif_fill_buf(&mut br);
    let want_end = if skip + CAP < n { skip + CAP } else { n };
    match res {
        Ok(added) => {
            if FAULT {
                vassert!(br.get_ref().calls <= br.get_ref().fault_at, "C14 a failing read is never swallowed");
            }
            vassert!(br.buffer().len() == want_end - skip, "C03 after a refill the buffer is full or the source is exhausted, for every chunking and interrupt pattern");
            vassert!(added == br.buffer().len() - before, "C03 refill reports the number of bytes it added");
            vassert!(window_is(br.buffer(), &file, skip), "C03 refill delivers the bytes of the input in order");
            vassert!(br.capacity() == CAP, "C09 refill does not change the capacity");
            cover!(br.get_ref().reads_done >= 3, "at least three partial reads");
            cover!(br.get_ref().calls > br.get_ref().reads_done + 1, "an interrupted read was retried");
            cover!(br.buffer().len() < CAP, "source exhausted before the buffer was full");
        }
        Err(e) => {
            vassert!(FAULT, "C14 no error without an injected fault (interrupted reads are retried)");
            if FAULT {
                vassert!(e.kind() == kind_of(br.get_ref().fault_kind), "C14 the error kind of the source is preserved");
                vassert!(br.get_ref().calls == br.get_ref().fault_at + 1, "C14 the error is returned by the call that met it");
                vassert!(window_is(br.buffer(), &file, skip), "C14 bytes read before the failure stay in the buffer");
                cover!(br.buffer().len() > before, "opt: bytes were added before the failure");
            }
            std::mem::forget(e);
        }
    }
    std::mem::forget(br);
}

pub fn k_fill_buf_f7_c5<N: Nd>(nd: &mut N) {
    k_fill_buf::<N, 7, 5, false>(nd)
}
pub fn k_fill_buf_f9_c6<N: Nd>(nd: &mut N) {
    k_fill_buf::<N, 9, 6, false>(nd)
}
pub fn k_fill_buf_fault_f7_c5<N: Nd>(nd: &mut N) {
    k_fill_buf::<N, 7, 5, true>(nd)
}

/// `trim_cr` on every line of <= 4 bytes: exactly one final CR is removed, nothing else changes
/// (every byte string is a possible line content, so no reachability argument is needed)
pub fn k_trim_cr<N: Nd>(nd: &mut N) {
    let mut line = [0u8; 4];
    let mut i = 0;
    while i < 4 {
        line[i] = nd.u8();
        i += 1;
    }
    let l = nd.usize_in(0, 4);
    nd.note("line", &line[..l]);
    let t = seq_io::verif_trim_cr(&line[..l]);
    let cr = l > 0 && line[l - 1] == b'\r';
    let want = if cr { l - 1 } else { l };
    vassert!(t.len() == want, "C12 exactly one final CR is removed from a line, and only a final CR");
    vassert!(t.len() == want, "C01 a FASTA line is returned without its terminator (LF or CRLF) and otherwise unchanged");
    vassert!(t.len() == want, "C02 a FASTQ line is returned without its terminator (LF or CRLF) and otherwise unchanged");
    vassert!(t.len() == want, "C13 line views exclude exactly the terminator");
    vassert!(t.as_ptr() == line.as_ptr(), "C12 the trimmed line is a prefix of the line");
    cover!(cr && l == 1, "line consisting of a CR only");
    cover!(cr && l > 1, "CR after content");
    cover!(!cr && l > 0, "no CR");
}

harnesses! {
    /// @meta props=C12,C01,C02,C13 tier=quick kind=R timeout=300 mem=8 unwind=6 bounds="seq_io::trim_cr on every byte string of length 0..=4"
    libk_trim_cr => k_trim_cr;
    /// @meta props=C03,C14,C01,C02,C09:t tier=quick kind=K stage2=pub timeout=1500 mem=12 unwind=10 bounds="seq_io::fill_buf on capacity 5 over every file <= 7 bytes: every chunking of the first 6 source calls (1..all bytes), every pattern of interrupted reads among them, every prefix already buffered"
    libk_fill_buf_f7_c5 => k_fill_buf_f7_c5;
    /// @meta props=C14,C06:t tier=quick kind=K stage2=pub timeout=1500 mem=12 unwind=10 bounds="seq_io::fill_buf on capacity 5, file <= 7 bytes, chunking and interrupts as above, plus a hard error of any of 4 kinds at any of the first 6 source calls"
    libk_fill_buf_fault_f7_c5 => k_fill_buf_fault_f7_c5;
    /// @meta props=C03:t,C14:t tier=thorough kind=K stage2=pub timeout=5000 mem=30 unwind=12 bounds="as libk_fill_buf_f7_c5 with capacity 6 and files <= 9 bytes"
    libk_fill_buf_f9_c6 => k_fill_buf_f9_c6;
}

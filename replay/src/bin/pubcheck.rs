//! pubcheck — native monitor over the PUBLIC API of the real seq_io (real memchr, real
//! buffer-redux).  It decides nothing: it is used (a) to confirm that a solver counterexample
//! found from an internal state corresponds to a failure reachable through the public API on
//! the same input, and (b) to validate the reference semantics (spec.rs) against the real code.
//!
//!   pubcheck <PROP> <notes-json>          confirm mode: notes = {"format":"fasta"|"fastq","file":"<escaped>",...}
//!   pubcheck --file <fasta|fastq> <escaped-file>   run all monitors on one file, print failures
//!   pubcheck --sweep <fasta|fastq> <maxlen> <alphabet-escaped>   enumerate all files (validation of the spec)
//!
//! last stdout line: {"outcome":"fail"|"pass","message":..,"tags":[..],"scenario":..}
use seq_io::{fasta, fastq};
use std::io::{self, Read, Seek, SeekFrom};
use std::panic;
use sv::spec::*;

// ---------------------------------------------------------------------------------------------
struct Src {
    data: Vec<u8>,
    pos: usize,
    chunk: usize,
}
thread_local! {
    /// (interrupt every other call, fail at this call index with PermissionDenied, call counter)
    static FAULTS: std::cell::RefCell<(bool, usize, usize)> = std::cell::RefCell::new((false, usize::MAX, 0));
}
fn set_faults(intr: bool, fail_at: usize) {
    FAULTS.with(|f| *f.borrow_mut() = (intr, fail_at, 0));
}
impl Read for Src {
    fn read(&mut self, out: &mut [u8]) -> io::Result<usize> {
        let (intr, fail_at, n) = FAULTS.with(|f| {
            let mut g = f.borrow_mut();
            g.2 += 1;
            (g.0, g.1, g.2 - 1)
        });
        if n == fail_at {
            return Err(io::Error::from(io::ErrorKind::PermissionDenied));
        }
        if intr && n % 2 == 1 {
            return Err(io::Error::from(io::ErrorKind::Interrupted));
        }
        let n = out.len().min(self.chunk).min(self.data.len() - self.pos.min(self.data.len()));
        out[..n].copy_from_slice(&self.data[self.pos..self.pos + n]);
        self.pos += n;
        Ok(n)
    }
}
impl Seek for Src {
    fn seek(&mut self, p: SeekFrom) -> io::Result<u64> {
        if let SeekFrom::Start(x) = p {
            self.pos = (x as usize).min(self.data.len());
            Ok(self.pos as u64)
        } else {
            Err(io::Error::from(io::ErrorKind::Unsupported))
        }
    }
}

fn unescape(s: &str) -> Vec<u8> {
    let b = s.as_bytes();
    let mut o = vec![];
    let mut i = 0;
    while i < b.len() {
        if b[i] == b'\\' && i + 1 < b.len() {
            match b[i + 1] {
                b'n' => {
                    o.push(b'\n');
                    i += 2;
                }
                b'r' => {
                    o.push(b'\r');
                    i += 2;
                }
                b'\\' => {
                    o.push(b'\\');
                    i += 2;
                }
                b'x' => {
                    o.push(u8::from_str_radix(&s[i + 2..i + 4], 16).unwrap());
                    i += 4;
                }
                _ => {
                    o.push(b[i]);
                    i += 1;
                }
            }
        } else {
            o.push(b[i]);
            i += 1;
        }
    }
    o
}

#[derive(Clone, Debug, PartialEq, Eq)]
enum Item {
    FaRec { head: Vec<u8>, lines: Vec<Vec<u8>>, line: u64, byte: u64 },
    FqRec { head: Vec<u8>, seq: Vec<u8>, qual: Vec<u8>, line: u64, byte: u64 },
    FaInvalidStart { line: usize, found: u8 },
    FqErr { kind: FqKind, line: u64, id: Option<String>, found: u8, seq: usize, qual: usize },
    Other(String),
}

struct Fail {
    tags: &'static [&'static str],
    msg: String,
    scenario: String,
}

const T_CONTENT_FA: &[&str] = &["C01", "C03", "C06", "C12", "C13"];
const T_CONTENT_FQ: &[&str] = &["C02", "C03", "C06", "C12", "C13"];
const T_POS: &[&str] = &["C05", "C03"];
const T_ERR: &[&str] = &["C17", "C03", "C02", "C01"];
const T_CONFIG: &[&str] = &["C03"];
const T_IO: &[&str] = &["C14", "C03"];
const T_HIST: &[&str] = &["C04", "C06", "C05"];
const T_PANIC: &[&str] = &["C06", "C01", "C02", "C03", "C04", "C05", "C17"];

// ---------------------------------------------------------------------------------------------
// sequential reading
// ---------------------------------------------------------------------------------------------
fn fa_seq(file: &[u8], cap: usize, chunk: usize, max: usize) -> Vec<Option<Item>> {
    let mut r = fasta::Reader::with_capacity(Src { data: file.to_vec(), pos: 0, chunk }, cap);
    let mut out = vec![];
    for _ in 0..max {
        let item = match r.next() {
            None => None,
            Some(Ok(rec)) => {
                use fasta::Record;
                let head = rec.head().to_vec();
                let lines: Vec<Vec<u8>> = rec.seq_lines().map(|l| l.to_vec()).collect();
                let p = r.position().unwrap().clone();
                Some(Item::FaRec { head, lines, line: p.line(), byte: p.byte() })
            }
            Some(Err(fasta::Error::InvalidStart { line, found })) => Some(Item::FaInvalidStart { line, found }),
            Some(Err(e)) => Some(Item::Other(format!("{:?}", e))),
        };
        out.push(item);
    }
    out
}

fn fq_err_item(e: fastq::Error) -> Item {
    match e {
        fastq::Error::InvalidStart { found, pos } => Item::FqErr { kind: FqKind::InvalidStart, line: pos.line, id: pos.id, found, seq: 0, qual: 0 },
        fastq::Error::InvalidSep { found, pos } => Item::FqErr { kind: FqKind::InvalidSep, line: pos.line, id: pos.id, found, seq: 0, qual: 0 },
        fastq::Error::UnequalLengths { seq, qual, pos } => Item::FqErr { kind: FqKind::UnequalLengths, line: pos.line, id: pos.id, found: 0, seq, qual },
        fastq::Error::UnexpectedEnd { pos } => Item::FqErr { kind: FqKind::UnexpectedEnd, line: pos.line, id: pos.id, found: 0, seq: 0, qual: 0 },
        e => Item::Other(format!("{:?}", e)),
    }
}

fn fq_seq(file: &[u8], cap: usize, chunk: usize, max: usize) -> Vec<Option<Item>> {
    let mut r = fastq::Reader::with_capacity(Src { data: file.to_vec(), pos: 0, chunk }, cap);
    let mut out = vec![];
    for _ in 0..max {
        let item = match r.next() {
            None => None,
            Some(Ok(rec)) => {
                use fastq::Record;
                let (head, seq, qual) = (rec.head().to_vec(), rec.seq().to_vec(), rec.qual().to_vec());
                let p = r.position().clone();
                Some(Item::FqRec { head, seq, qual, line: p.line(), byte: p.byte() })
            }
            Some(Err(e)) => Some(fq_err_item(e)),
        };
        out.push(item);
    }
    out
}

/// sequential FASTA run against the reference
fn fa_vs_spec(file: &[u8], got: &[Option<Item>], scen: &str, fails: &mut Vec<Fail>) {
    let mut k = 0;
    let mut push = |tags, msg: String| fails.push(Fail { tags, msg, scenario: scen.to_string() });
    match fa_first(file) {
        FaFirst::Empty => {}
        FaFirst::Invalid { line, found } => {
            match &got[0] {
                Some(Item::FaInvalidStart { line: l, found: fd }) => {
                    if *fd != found {
                        push(T_ERR, format!("InvalidStart.found {} expected {}", fd, found));
                    }
                    if *l as u64 != line {
                        push(T_ERR, format!("InvalidStart.line {} expected {}", l, line));
                    }
                }
                o => push(T_CONTENT_FA, format!("expected InvalidStart, got {:?}", o)),
            }
            k = 1;
        }
        FaFirst::Header { pos, line: _ } => {
            let mut h = pos;
            while h < file.len() {
                let end = fa_next_header(file, h);
                let mut it = FaLines::new(file, h, end);
                let (a, b) = it.next().unwrap();
                let head = file[a..b].to_vec();
                let mut lines = vec![];
                while let Some((a, b)) = it.next() {
                    lines.push(file[a..b].to_vec());
                }
                if k >= got.len() {
                    break;
                }
                match &got[k] {
                    Some(Item::FaRec { head: gh, lines: gl, line, byte }) => {
                        if *gh != head || *gl != lines {
                            push(T_CONTENT_FA, format!("record {}: got head {:?} lines {:?}, expected head {:?} lines {:?}", k, gh, gl, head, lines));
                        }
                        if *byte != h as u64 || *line != line_of(file, h) {
                            push(T_POS, format!("record {}: position (line {}, byte {}), expected (line {}, byte {})", k, line, byte, line_of(file, h), h));
                        }
                    }
                    o => push(T_CONTENT_FA, format!("record {}: expected a record, got {:?}", k, o)),
                }
                k += 1;
                h = end;
            }
        }
    }
    while k < got.len() {
        if got[k].is_some() {
            push(T_CONTENT_FA, format!("call {}: expected end of input, got {:?}", k, got[k]));
        }
        k += 1;
    }
}

fn lossy_id(f: &[u8], g: &FqGroup) -> String {
    let (a, b) = fq_head(f, g);
    let h = &f[a..b];
    let id = h.split(|c| *c == b' ').next().unwrap();
    String::from_utf8_lossy(id).to_string()
}

fn fq_vs_spec(file: &[u8], got: &[Option<Item>], scen: &str, fails: &mut Vec<Fail>) {
    let mut p = 0usize;
    let mut k = 0;
    let mut ended = false;
    let mut push = |tags, msg: String| fails.push(Fail { tags, msg, scenario: scen.to_string() });
    while k < got.len() {
        if ended {
            if got[k].is_some() {
                push(T_CONTENT_FQ, format!("call {}: expected end of input after end/error, got {:?}", k, got[k]));
            }
            k += 1;
            continue;
        }
        let v = fq_verdict(file, p);
        let g = fq_group(file, p);
        let hline = line_of(file, p);
        match &got[k] {
            None => {
                if !v.end {
                    push(T_CONTENT_FQ, format!("call {}: end of input, but group at byte {} admits {:?}", k, p, v));
                }
                ended = true;
            }
            Some(Item::FqRec { head, seq, qual, line, byte }) => {
                if !v.record {
                    push(T_CONTENT_FQ, format!("call {}: record returned, but group at byte {} admits {:?}", k, p, v));
                } else {
                    let (ha, hb) = fq_head(file, &g);
                    let (sa, sb) = fq_line(file, &g, 1);
                    let (qa, qb) = fq_line(file, &g, 3);
                    if head[..] != file[ha..hb] || seq[..] != file[sa..sb] || qual[..] != file[qa..qb] {
                        push(T_CONTENT_FQ, format!("call {}: record fields {:?}/{:?}/{:?} expected {:?}/{:?}/{:?}", k, head, seq, qual, &file[ha..hb], &file[sa..sb], &file[qa..qb]));
                    }
                    if *byte != p as u64 || *line != hline {
                        push(T_POS, format!("call {}: position (line {}, byte {}), expected (line {}, byte {})", k, line, byte, hline, p));
                    }
                }
                p = g.next;
            }
            Some(Item::FqErr { kind, line, id, found, seq, qual }) => {
                if !v.admits(*kind) {
                    push(T_CONTENT_FQ, format!("call {}: error {:?}, but group at byte {} admits {:?}", k, kind, p, v));
                } else {
                    match kind {
                        FqKind::InvalidStart => {
                            if *line != hline || *found != file[p] {
                                push(T_ERR, format!("InvalidStart line {} found {} expected line {} found {}", line, found, hline, file[p]));
                            }
                        }
                        FqKind::InvalidSep => {
                            if *line != hline + 2 || *found != file[g.starts[2]] {
                                push(T_ERR, format!("InvalidSep line {} found {} expected line {} found {}", line, found, hline + 2, file[g.starts[2]]));
                            }
                        }
                        FqKind::UnequalLengths => {
                            let (sa, sb) = fq_line(file, &g, 1);
                            let (qa, qb) = fq_line(file, &g, 3);
                            if *line != hline || *seq != sb - sa || *qual != qb - qa {
                                push(T_ERR, format!("UnequalLengths line {} seq {} qual {} expected line {} seq {} qual {}", line, seq, qual, hline, sb - sa, qb - qa));
                            }
                        }
                        FqKind::UnexpectedEnd => {
                            let last = line_of(file, file.len());
                            if *line != last {
                                push(T_ERR, format!("UnexpectedEnd line {} expected {}", line, last));
                            }
                        }
                        _ => {}
                    }
                    if let Some(idv) = id {
                        if *idv != lossy_id(file, &g) {
                            push(T_ERR, format!("error id {:?} expected {:?}", idv, lossy_id(file, &g)));
                        }
                    }
                }
                ended = true;
            }
            o => {
                push(T_CONTENT_FQ, format!("call {}: unexpected {:?}", k, o));
                ended = true;
            }
        }
        k += 1;
    }
}

// ---------------------------------------------------------------------------------------------
// histories (C04/C05): relational against the sequential baseline
// ---------------------------------------------------------------------------------------------
#[derive(Clone, Copy, Debug, PartialEq)]
enum Op {
    Next,
    Owned,
    Set,
    Exact(usize),
    Seek(usize),
}

fn strip_pos(i: &Item) -> Item {
    match i {
        Item::FaRec { head, lines, .. } => Item::FaRec { head: head.clone(), lines: lines.clone(), line: 0, byte: 0 },
        Item::FqRec { head, seq, qual, .. } => Item::FqRec { head: head.clone(), seq: seq.clone(), qual: qual.clone(), line: 0, byte: 0 },
        o => o.clone(),
    }
}
fn item_pos(i: &Item) -> Option<(u64, u64)> {
    match i {
        Item::FaRec { line, byte, .. } | Item::FqRec { line, byte, .. } => Some((*line, *byte)),
        _ => None,
    }
}

/// runs `ops` on one FASTA reader; `base` = sequential items (records then maybe an error), without trailing None
fn fa_history(file: &[u8], cap: usize, chunk: usize, ops: &[Op], base: &[Item], scen: &str, fails: &mut Vec<Fail>) {
    use fasta::Record;
    let mut r = fasta::Reader::with_capacity(Src { data: file.to_vec(), pos: 0, chunk }, cap);
    let mut rset = fasta::RecordSet::default();
    let mut k = 0usize; // cursor into base
    let mut dead = false; // after an error item everything is end of input
    let mut push = |msg: String| fails.push(Fail { tags: T_HIST, msg, scenario: scen.to_string() });
    for (oi, op) in ops.iter().enumerate() {
        match *op {
            Op::Next | Op::Owned => {
                let got: Option<Item> = if *op == Op::Next {
                    match r.next() {
                        None => None,
                        Some(Ok(rec)) => Some(Item::FaRec { head: rec.head().to_vec(), lines: rec.seq_lines().map(|l| l.to_vec()).collect(), line: 0, byte: 0 }),
                        Some(Err(fasta::Error::InvalidStart { line, found })) => Some(Item::FaInvalidStart { line, found }),
                        Some(Err(e)) => Some(Item::Other(format!("{:?}", e))),
                    }
                } else {
                    match r.records().next() {
                        None => None,
                        Some(Ok(rec)) => Some(Item::FaRec { head: rec.head.clone(), lines: if rec.seq.is_empty() { vec![] } else { vec![rec.seq.clone()] }, line: 0, byte: 0 }),
                        Some(Err(fasta::Error::InvalidStart { line, found })) => Some(Item::FaInvalidStart { line, found }),
                        Some(Err(e)) => Some(Item::Other(format!("{:?}", e))),
                    }
                };
                let want = if dead || k >= base.len() { None } else { Some(strip_pos(&base[k])) };
                let same = match (&got, &want) {
                    (Some(Item::FaRec { head: h1, lines: l1, .. }), Some(Item::FaRec { head: h2, lines: l2, .. })) if *op == Op::Owned => {
                        h1 == h2 && l1.concat() == l2.concat()
                    }
                    (a, b) => a == b,
                };
                if !same {
                    push(format!("op {} {:?}: got {:?}, expected {:?}", oi, op, got, want));
                    return;
                }
                if let Some(Item::FaRec { .. }) = got {
                    let p = match r.position() {
                        Some(p) => p.clone(),
                        None => {
                            fails.push(Fail { tags: T_POS, msg: format!("op {} {:?}: no position reported after a record was returned", oi, op), scenario: scen.to_string() });
                            return;
                        }
                    };
                    if Some((p.line(), p.byte())) != item_pos(&base[k]) {
                        fails.push(Fail { tags: T_POS, msg: format!("op {} {:?}: position {:?} expected {:?}", oi, op, p, item_pos(&base[k])), scenario: scen.to_string() });
                        return;
                    }
                    k += 1;
                } else if got.is_some() {
                    dead = true;
                }
            }
            Op::Set | Op::Exact(_) => {
                let n = if let Op::Exact(n) = *op { Some(n) } else { None };
                let res = r.read_record_set_exact(&mut rset, n);
                let nrec = if dead { 0 } else { base[k.min(base.len())..].iter().take_while(|i| matches!(i, Item::FaRec { .. })).count() };
                let err_next = !dead && k + nrec < base.len();
                match res {
                    None => {
                        if nrec > 0 || err_next {
                            push(format!("op {} {:?}: end of input although {} records / an error remain", oi, op, nrec));
                            return;
                        }
                    }
                    Some(Err(e)) => {
                        let got = match e {
                            fasta::Error::InvalidStart { line, found } => Item::FaInvalidStart { line, found },
                            e => Item::Other(format!("{:?}", e)),
                        };
                        if nrec > 0 || !err_next || got != base[k] {
                            push(format!("op {} {:?}: error {:?}, expected records={} then {:?}", oi, op, got, nrec, base.get(k + nrec)));
                            return;
                        }
                        dead = true;
                    }
                    Some(Ok(())) => {
                        let m = rset.len();
                        let items: Vec<Item> = rset.into_iter().map(|rec| Item::FaRec { head: rec.head().to_vec(), lines: rec.seq_lines().map(|l| l.to_vec()).collect(), line: 0, byte: 0 }).collect();
                        if m == 0 || m != items.len() {
                            push(format!("op {} {:?}: successful set read with {} records ({} iterated)", oi, op, m, items.len()));
                            return;
                        }
                        if m > nrec {
                            push(format!("op {} {:?}: {} records in set but only {} remain", oi, op, m, nrec));
                            return;
                        }
                        if let Some(n) = n {
                            if m != n.min(nrec) {
                                push(format!("op {} {:?}: exact read yields {} records, {} remain", oi, op, m, nrec));
                                return;
                            }
                        }
                        for j in 0..m {
                            if items[j] != strip_pos(&base[k + j]) {
                                push(format!("op {} {:?}: set record {} is {:?}, expected {:?}", oi, op, j, items[j], strip_pos(&base[k + j])));
                                return;
                            }
                        }
                        k += m;
                        if k < base.len() {
                            if let (Some(want), Some(p)) = (item_pos(&base[k]), r.position()) {
                                if (p.line(), p.byte()) != want {
                                    fails.push(Fail { tags: T_POS, msg: format!("op {} {:?}: position after set {:?}, expected next record at {:?}", oi, op, p, want), scenario: scen.to_string() });
                                    return;
                                }
                            }
                        }
                    }
                }
            }
            Op::Seek(j) => {
                if j >= base.len() {
                    continue;
                }
                if let Some((line, byte)) = item_pos(&base[j]) {
                    if let Err(e) = r.seek(&fasta::Position::new(line, byte)) {
                        push(format!("op {} seek: error {:?}", oi, e));
                        return;
                    }
                    k = j;
                    dead = false;
                }
            }
        }
    }
}

fn fq_history(file: &[u8], cap: usize, chunk: usize, ops: &[Op], base: &[Item], scen: &str, fails: &mut Vec<Fail>) {
    use fastq::Record;
    let mut r = fastq::Reader::with_capacity(Src { data: file.to_vec(), pos: 0, chunk }, cap);
    let mut rset = fastq::RecordSet::default();
    let mut k = 0usize;
    let mut dead = false;
    let mut push = |msg: String| fails.push(Fail { tags: T_HIST, msg, scenario: scen.to_string() });
    let is_rec = |i: &Item| matches!(i, Item::FqRec { .. });
    for (oi, op) in ops.iter().enumerate() {
        match *op {
            Op::Next | Op::Owned => {
                let got: Option<Item> = if *op == Op::Next {
                    match r.next() {
                        None => None,
                        Some(Ok(rec)) => Some(Item::FqRec { head: rec.head().to_vec(), seq: rec.seq().to_vec(), qual: rec.qual().to_vec(), line: 0, byte: 0 }),
                        Some(Err(e)) => Some(fq_err_item(e)),
                    }
                } else {
                    match r.records().next() {
                        None => None,
                        Some(Ok(rec)) => Some(Item::FqRec { head: rec.head, seq: rec.seq, qual: rec.qual, line: 0, byte: 0 }),
                        Some(Err(e)) => Some(fq_err_item(e)),
                    }
                };
                let want = if dead || k >= base.len() { None } else { Some(strip_pos(&base[k])) };
                if got != want {
                    push(format!("op {} {:?}: got {:?}, expected {:?}", oi, op, got, want));
                    return;
                }
                if let Some(Item::FqRec { .. }) = got {
                    let p = r.position();
                    if Some((p.line(), p.byte())) != item_pos(&base[k]) {
                        fails.push(Fail { tags: T_POS, msg: format!("op {} {:?}: position {:?} expected {:?}", oi, op, p, item_pos(&base[k])), scenario: scen.to_string() });
                        return;
                    }
                    k += 1;
                } else if got.is_some() {
                    dead = true;
                }
            }
            Op::Set | Op::Exact(_) => {
                let n = if let Op::Exact(n) = *op { Some(n) } else { None };
                let res = r.read_record_set_exact(&mut rset, n);
                let nrec = if dead { 0 } else { base[k.min(base.len())..].iter().take_while(|i| is_rec(i)).count() };
                let err_next = !dead && k + nrec < base.len();
                match res {
                    None => {
                        if nrec > 0 || err_next {
                            push(format!("op {} {:?}: end of input although {} records / an error remain", oi, op, nrec));
                            return;
                        }
                    }
                    Some(Err(e)) => {
                        let got = fq_err_item(e);
                        if nrec > 0 || !err_next || got != base[k] {
                            push(format!("op {} {:?}: error {:?}, expected records={} then {:?}", oi, op, got, nrec, base.get(k + nrec)));
                            return;
                        }
                        dead = true;
                    }
                    Some(Ok(())) => {
                        let m = rset.len();
                        let items: Vec<Item> = rset.into_iter().map(|rec| Item::FqRec { head: rec.head().to_vec(), seq: rec.seq().to_vec(), qual: rec.qual().to_vec(), line: 0, byte: 0 }).collect();
                        if m == 0 || m != items.len() {
                            push(format!("op {} {:?}: successful set read with {} records ({} iterated)", oi, op, m, items.len()));
                            return;
                        }
                        if m > nrec {
                            push(format!("op {} {:?}: {} records in set but only {} remain", oi, op, m, nrec));
                            return;
                        }
                        if let Some(n) = n {
                            if m != n.min(nrec) {
                                push(format!("op {} {:?}: exact read yields {} records, {} remain", oi, op, m, nrec));
                                return;
                            }
                        }
                        for j in 0..m {
                            if items[j] != strip_pos(&base[k + j]) {
                                push(format!("op {} {:?}: set record {} is {:?}, expected {:?}", oi, op, j, items[j], strip_pos(&base[k + j])));
                                return;
                            }
                        }
                        k += m;
                        if k < base.len() {
                            if let Some(want) = item_pos(&base[k]) {
                                let p = r.position();
                                if (p.line(), p.byte()) != want {
                                    fails.push(Fail { tags: T_POS, msg: format!("op {} {:?}: position after set {:?}, expected next record at {:?}", oi, op, p, want), scenario: scen.to_string() });
                                    return;
                                }
                            }
                        }
                    }
                }
            }
            Op::Seek(j) => {
                if j >= base.len() {
                    continue;
                }
                if let Some((line, byte)) = item_pos(&base[j]) {
                    if let Err(e) = r.seek(&fastq::Position::new(line, byte)) {
                        push(format!("op {} seek: error {:?}", oi, e));
                        return;
                    }
                    k = j;
                    dead = false;
                }
            }
        }
    }
}

// ---------------------------------------------------------------------------------------------
fn all_ops(nrec: usize) -> Vec<Op> {
    let mut v = vec![Op::Next, Op::Owned, Op::Set, Op::Exact(1), Op::Exact(2), Op::Exact(3)];
    for j in 0..nrec.min(3) {
        v.push(Op::Seek(j));
    }
    v
}

fn histories(ops: &[Op], len: usize) -> Vec<Vec<Op>> {
    let mut out: Vec<Vec<Op>> = vec![vec![]];
    let mut all = vec![];
    for _ in 0..len {
        let mut nxt = vec![];
        for h in &out {
            for o in ops {
                let mut h2 = h.clone();
                h2.push(*o);
                nxt.push(h2);
            }
        }
        all.extend(nxt.iter().cloned());
        out = nxt;
    }
    all
}

fn run_monitors(fmt: &str, file: &[u8], hist_len: usize, caps: &[usize]) -> Vec<Fail> {
    let mut fails = vec![];
    let maxcalls = file.len() + 4;
    let big = file.len() + 8;
    let show = sv::util::show_bytes(file);
    let guard = |f: &mut dyn FnMut(&mut Vec<Fail>), scen: String, fails: &mut Vec<Fail>| {
        let mut local = vec![];
        let r = panic::catch_unwind(panic::AssertUnwindSafe(|| f(&mut local)));
        fails.extend(local);
        if r.is_err() {
            fails.push(Fail { tags: T_PANIC, msg: "panic in the library".to_string(), scenario: scen });
        }
    };
    // baseline
    let mut base_full: Vec<Option<Item>> = vec![];
    guard(
        &mut |fl| {
            base_full = if fmt == "fasta" { fa_seq(file, big, usize::MAX, maxcalls) } else { fq_seq(file, big, usize::MAX, maxcalls) };
            let scen = format!("{} file={:?} cap={} chunk=whole sequential next()", fmt, show, big);
            if fmt == "fasta" {
                fa_vs_spec(file, &base_full, &scen, fl)
            } else {
                fq_vs_spec(file, &base_full, &scen, fl)
            }
        },
        format!("{} file={:?} cap={} sequential", fmt, show, big),
        &mut fails,
    );
    let base: Vec<Item> = base_full.iter().take_while(|i| i.is_some()).map(|i| i.clone().unwrap()).collect();
    let nrec = base.iter().filter(|i| item_pos(i).is_some()).count();
    let ops = all_ops(nrec);
    let hists = histories(&ops, hist_len);
    for &cap in caps {
        for &chunk in &[usize::MAX, 1usize, 2usize] {
            let scen = format!("{} file={:?} cap={} chunk={} sequential next()", fmt, show, cap, if chunk == usize::MAX { "whole".to_string() } else { chunk.to_string() });
            guard(
                &mut |fl| {
                    let got = if fmt == "fasta" { fa_seq(file, cap, chunk, maxcalls) } else { fq_seq(file, cap, chunk, maxcalls) };
                    if fmt == "fasta" {
                        fa_vs_spec(file, &got, &scen, fl)
                    } else {
                        fq_vs_spec(file, &got, &scen, fl)
                    }
                    if got != base_full {
                        fl.push(Fail { tags: T_CONFIG, msg: format!("outcome differs from cap={} whole: {:?} vs {:?}", big, got, base_full), scenario: scen.clone() });
                    }
                },
                scen.clone(),
                &mut fails,
            );
            // C14: interrupted reads are invisible; a failing read surfaces as the I/O error of its kind
            let scen_i = format!("{} file={:?} cap={} chunk={} every second read interrupted", fmt, show, cap, if chunk == usize::MAX { "whole".to_string() } else { chunk.to_string() });
            guard(
                &mut |fl| {
                    set_faults(false, usize::MAX);
                    let plain = if fmt == "fasta" { fa_seq(file, cap, chunk, maxcalls) } else { fq_seq(file, cap, chunk, maxcalls) };
                    set_faults(true, usize::MAX);
                    let got = if fmt == "fasta" { fa_seq(file, cap, chunk, maxcalls) } else { fq_seq(file, cap, chunk, maxcalls) };
                    set_faults(false, usize::MAX);
                    if got != plain {
                        fl.push(Fail { tags: T_IO, msg: format!("interrupted reads change the outcome: {:?} vs {:?}", got, plain), scenario: scen_i.clone() });
                    }
                    if chunk != 2 {
                        let nrec_plain = plain.iter().take_while(|i| i.is_some()).count();
                        for k in 0..6usize {
                            set_faults(false, k);
                            let got = if fmt == "fasta" { fa_seq(file, cap, chunk, maxcalls) } else { fq_seq(file, cap, chunk, maxcalls) };
                            let calls = FAULTS.with(|f| f.borrow().2);
                            set_faults(false, usize::MAX);
                            if calls <= k {
                                continue; // the source was never asked a k-th time
                            }
                            // the outcome must be: leading items of the fault-free run, then the I/O error
                            let mut ok = false;
                            for (i, it) in got.iter().enumerate() {
                                match it {
                                    Some(Item::Other(m)) if m.contains("PermissionDenied") => {
                                        ok = i <= nrec_plain && got[..i] == plain[..i];
                                        // after the error: end of input or errors, never a fabricated record
                                        let rest = &got[i + 1..];
                                        let genuine = i + rest.len() <= plain.len() && rest == &plain[i..i + rest.len()];
                                        if !genuine && rest.iter().any(|x| !matches!(x, None | Some(Item::Other(_)))) {
                                            fl.push(Fail { tags: &["C06", "C14"], msg: format!("after an I/O error at source call {} a later read returns {:?}", k, &got[i + 1..]), scenario: scen_i.clone() });
                                        }
                                        break;
                                    }
                                    _ => {}
                                }
                            }
                            if !ok {
                                fl.push(Fail { tags: T_IO, msg: format!("a read failing at source call {} is not reported as its I/O error after the leading records: {:?}", k, got), scenario: scen_i.clone() });
                            }
                        }
                    }
                },
                scen_i.clone(),
                &mut fails,
            );
            if chunk == 2 {
                continue;
            }
            for h in &hists {
                let scen = format!("{} file={:?} cap={} chunk={} history={:?}", fmt, show, cap, if chunk == usize::MAX { "whole".to_string() } else { chunk.to_string() }, h);
                guard(
                    &mut |fl| {
                        if fmt == "fasta" {
                            fa_history(file, cap, chunk, h, &base, &scen, fl)
                        } else {
                            fq_history(file, cap, chunk, h, &base, &scen, fl)
                        }
                    },
                    scen.clone(),
                    &mut fails,
                );
            }
        }
    }
    fails
}

fn json_str(s: &str) -> String {
    let mut o = String::from("\"");
    for c in s.chars() {
        match c {
            '"' => o.push_str("\\\""),
            '\\' => o.push_str("\\\\"),
            '\n' => o.push_str("\\n"),
            '\r' => o.push_str("\\r"),
            c if (c as u32) < 0x20 => o.push_str(&format!("\\u{:04x}", c as u32)),
            c => o.push(c),
        }
    }
    o.push('"');
    o
}

fn extract(notes: &str, key: &str) -> Option<String> {
    // minimal extraction of "key":"value" from a flat JSON object with escaped strings
    let pat = format!("\"{}\"", key);
    let i = notes.find(&pat)?;
    let rest = &notes[i + pat.len()..];
    let q = rest.find('"')?;
    let rest = &rest[q + 1..];
    let mut out = String::new();
    let mut chars = rest.chars();
    while let Some(c) = chars.next() {
        match c {
            '\\' => match chars.next()? {
                'n' => out.push('\n'),
                'r' => out.push('\r'),
                't' => out.push('\t'),
                '\\' => out.push('\\'),
                '"' => out.push('"'),
                'u' => {
                    let h: String = (0..4).filter_map(|_| chars.next()).collect();
                    out.push(char::from_u32(u32::from_str_radix(&h, 16).ok()?)?);
                }
                o => out.push(o),
            },
            '"' => return Some(out),
            c => out.push(c),
        }
    }
    None
}

fn main() {
    let args: Vec<String> = std::env::args().collect();
    panic::set_hook(Box::new(|_| {}));
    if args.len() >= 5 && args[1] == "--sweep" {
        let fmt = args[2].as_str();
        let maxlen: usize = args[3].parse().unwrap();
        let alpha = unescape(&args[4]);
        let hist_len: usize = args.get(5).map(|s| s.parse().unwrap()).unwrap_or(0);
        let mut total = 0u64;
        let mut bad = 0u64;
        let mut seen = std::collections::BTreeMap::new();
        for len in 0..=maxlen {
            let mut idx = vec![0usize; len];
            loop {
                let file: Vec<u8> = idx.iter().map(|i| alpha[*i]).collect();
                let caps: Vec<usize> = (3..=len + 2).collect();
                let fails = run_monitors(fmt, &file, hist_len, &caps);
                total += 1;
                if !fails.is_empty() {
                    bad += 1;
                    let key = format!("{:?} {}", fails[0].tags, fails[0].msg.split(':').next().unwrap_or(""));
                    let e = seen.entry(key).or_insert((0u64, String::new()));
                    e.0 += 1;
                    if e.1.is_empty() {
                        e.1 = format!("{} || {}", fails[0].scenario, fails[0].msg);
                    }
                }
                // next
                let mut j = 0;
                while j < len {
                    idx[j] += 1;
                    if idx[j] < alpha.len() {
                        break;
                    }
                    idx[j] = 0;
                    j += 1;
                }
                if j == len {
                    break;
                }
            }
        }
        println!("files={} failing={}", total, bad);
        for (k, (c, ex)) in seen {
            println!("{:6}  {}\n        e.g. {}", c, k, ex);
        }
        return;
    }
    let (prop, fmt, file, hist_len) = if args.len() >= 4 && args[1] == "--file" {
        ("*".to_string(), args[2].clone(), unescape(&args[3]), 2usize)
    } else if args.len() >= 3 {
        let notes = &args[2];
        let fmt = extract(notes, "format").unwrap_or_else(|| "both".to_string());
        let file = match extract(notes, "file") {
            Some(f) => unescape(&f),
            None => Vec::new(),
        };
        (args[1].clone(), fmt, file, 3usize)
    } else {
        eprintln!("usage: pubcheck <PROP> <notes-json> | --file fmt file | --sweep fmt maxlen alphabet [histlen]");
        std::process::exit(2);
    };
    let caps: Vec<usize> = (3..=file.len() + 3).collect();
    let mut fails = vec![];
    let fmts: Vec<&str> = if fmt == "fasta" || fmt == "fastq" { vec![fmt.as_str()] } else { vec!["fasta", "fastq"] };
    for fm in &fmts {
        fails.extend(run_monitors(fm, &file, hist_len, &caps));
    }
    if args[1] != "--file" && !fails.iter().any(|f| f.tags.contains(&prop.as_str())) {
        // The counterexample's own input shows nothing through the public API (typical for a
        // kernel that is not a parser, e.g. fill_buf): try canonical well-formed inputs, still only
        // to confirm that the defect the solver found is reachable through the public API.
        // (format, input, length of the call histories explored on it)
        let canon: [(&str, &[u8], usize); 16] = [
            ("fasta", b">a\nAC\n>b\nG\n", 2),
            ("fasta", b"\r\n\r\n>a\r\nA\r\nC\r\n>b\r\nG", 2),
            ("fasta", b"\n\n\n\n>a b\nACGT\nAC\n>\n>c\nT\n\n", 3),
            ("fasta", b"\r\n\r\nx", 2),
            ("fastq", b"@a\nAC\n+\nII\n@b\nG\n+\nI\n", 2),
            ("fastq", b"@a x\r\nAC\r\n+\r\nII\r\n@b\r\nG\r\n+\r\nI", 2),
            ("fastq", b"@a\nAC\n+\nII\n@b\nG\n+\nI\n\r\n\n", 2),
            ("fastq", b"@a\nAC\n+\nII\n@b\nGG\n+a", 2),
            ("fastq", b"@a\nAC\n+\nII\n@b x\nTT", 2),
            ("fastq", b"@a\nACGT\n+\nIIII\n@second", 2),
            ("fastq", b"@a\nA\n+\nI\n@b\nCC\n+\nII\n@c\nG\n+\nI\n", 3),
            ("fastq", b"@a\nA\n+\nI\n@b\nCC\n+\nI\n@c\nG\n+\nI\n", 2),
            ("fastq", b"@a\nA\n+\nI\n@b\nC\n+\nI\nx\nG\n+\nI\n", 2),
            ("fastq", b"@a\nAC\n+\nII\n@b\nACGT\n+\nIIII", 2),
            ("fasta", b">a\r\nAC\r\n\r\nT\r\n>\r\nG\r\n\r\n", 2),
            ("fasta", b">a\nACGTACGT\n>b desc\nTTTTGGGGCC\nAA\n>c\nAC\n", 2),
        ];
        let blank_tails: [(&str, &[u8], usize); 4] = [("fasta", b"\n\n\r", 2), ("fasta", b"\r", 2), ("fasta", b"\r\n\r\n\r", 2), ("fastq", b"@a\nA\n+\nI\n\r\n\r", 2)];
        for (fm, data, hl) in canon.iter().chain(blank_tails.iter()) {
            if !fmts.contains(fm) {
                continue;
            }
            // each input under a watchdog: a call that does not return is a finding of its own (C06)
            let (tx, rx) = std::sync::mpsc::channel();
            let (fm2, data2, hl2) = (fm.to_string(), data.to_vec(), *hl);
            std::thread::spawn(move || {
                let caps: Vec<usize> = (3..=data2.len() + 2).collect();
                let r = run_monitors(&fm2, &data2, hl2, &caps);
                let _ = tx.send(r);
            });
            match rx.recv_timeout(std::time::Duration::from_secs(20)) {
                Ok(r) => fails.extend(r),
                Err(_) => {
                    fails.push(Fail { tags: T_PANIC, msg: "a call does not return (watchdog, 20 s)".to_string(), scenario: format!("{} file={:?}, capacities 3..={}", fm, sv::util::show_bytes(data), data.len() + 2) });
                    let f = fails.last().unwrap();
                    if f.tags.contains(&prop.as_str()) {
                        println!("{{\"outcome\":\"fail\",\"message\":{},\"tags\":{:?},\"scenario\":{},\"failures\":1}}", json_str(&f.msg), f.tags, json_str(&f.scenario));
                        std::process::exit(1);
                    }
                }
            }
            if fails.iter().any(|f| f.tags.contains(&prop.as_str())) {
                break;
            }
        }
    }
    let rel: Vec<&Fail> = fails.iter().filter(|f| prop == "*" || f.tags.contains(&prop.as_str())).collect();
    if args[1] == "--file" {
        for f in rel.iter().take(30) {
            println!("{:?} {} || {}", f.tags, f.scenario, f.msg);
        }
    }
    if let Some(f) = rel.first() {
        println!(
            "{{\"outcome\":\"fail\",\"message\":{},\"tags\":{:?},\"scenario\":{},\"failures\":{}}}",
            json_str(&f.msg),
            f.tags,
            json_str(&f.scenario),
            rel.len()
        );
        std::process::exit(1);
    }
    println!("{{\"outcome\":\"pass\",\"message\":\"no public-API failure for {} on this input ({} other-property failures)\"}}", prop, fails.len());
}

#!/bin/bash
# probe.sh <mod::harness> [timeout] : run one harness verbosely and summarise where time goes
export CARGO_NET_OFFLINE=true RUSTFLAGS="--cfg markschl_seq_io_verif --check-cfg cfg(markschl_seq_io_verif)"
cd /verif/kani
/usr/bin/time -f "wall=%es maxrss=%MkB" timeout ${2:-120} cargo kani --harness $1 --exact -Z stubbing --target-dir /verif/.work/kani-target --verbose ${EXTRA:-} 2>&1 | grep -E "Unwinding loop|Runtime|size of program|Generated|variables|VERIFICATION|cover properties|^error|maxrss|Status: FAILURE" | sed -E 's/iteration [0-9]+/iteration N/; s/thread 0//; s/_R[A-Za-z0-9_]+//; s#/home/runner/.rustup/toolchains/[^ ]*/library/##; s#/root/.cargo/registry/src/[^/]*/##' | awk '{c[$0]++} END{for(k in c) print c[k], k}' | sort -rn | cut -c1-230 | head -${LINES_N:-25}

//! Symbolic records "from parts": a small symbolic buffer plus offsets constrained by the
//! record invariant, i.e. exactly the (buffer, offsets) pairs the parsers can produce.
use crate::nd::Nd;
use crate::spec::{CR, LF};
use seq_io::{fasta, fastq};

pub const FB: usize = 8;
pub const ML: usize = 4;

pub struct FaParts {
    pub buf: [u8; FB],
    pub blen: usize,
    pub start: usize,
    /// line-end offsets; `l` of them are valid (1..=ML)
    pub p: [usize; ML],
    pub l: usize,
}

impl FaParts {
    pub fn last(&self) -> usize {
        self.p[self.l - 1]
    }
    pub fn buffer(&self) -> &[u8] {
        &self.buf[..self.blen]
    }
    pub fn bufpos(&self) -> fasta::VerifBufPos {
        let mut v = Vec::with_capacity(ML);
        let mut i = 0;
        while i < ML {
            if i < self.l {
                v.push(self.p[i]);
            }
            i += 1;
        }
        fasta::VerifBufPos::new(self.start, v)
    }
    /// content range of line k (0 = header without '>', k >= 1 sequence lines), CR trimmed
    pub fn line(&self, k: usize) -> (usize, usize) {
        let a = if k == 0 { self.start + 1 } else { self.p[k - 1] + 1 };
        let e = self.p[k];
        let a = if a > e { e } else { a };
        let b = if e > a && self.buf[e - 1] == CR { e - 1 } else { e };
        (a, b)
    }
}

/// FASTA record invariant: '>' at start, `p` = all LF positions of the record region in
/// ascending order, the last entry being the final LF or the end of the buffer (end of input
/// without terminator)
pub fn any_fa_record<N: Nd>(nd: &mut N) -> FaParts {
    any_fa_record_l(nd, 0)
}

/// `fixed_l` = 0: symbolic number of offsets, otherwise exactly that many
pub fn any_fa_record_l<N: Nd>(nd: &mut N, fixed_l: usize) -> FaParts {
    let mut r = FaParts { buf: [0; FB], blen: 0, start: 0, p: [0; ML], l: 0 };
    let mut i = 0;
    while i < FB {
        r.buf[i] = nd.u8();
        i += 1;
    }
    r.blen = nd.usize_in(1, FB);
    r.start = nd.usize_in(0, FB - 1);
    r.l = if fixed_l == 0 { nd.usize_in(1, ML) } else { fixed_l };
    i = 0;
    while i < ML {
        r.p[i] = nd.usize_in(0, FB);
        i += 1;
    }
    nd.assume(r.start < r.blen && r.buf[r.start] == b'>');
    let last = r.last();
    nd.assume(r.start < r.p[0] && last <= r.blen);
    // ascending, LF at every entry (the last one may be the end of the buffer)
    i = 0;
    while i < ML {
        if i + 1 < r.l {
            nd.assume(r.p[i] < r.p[i + 1]);
            nd.assume(r.buf[r.p[i]] == LF);
        }
        i += 1;
    }
    nd.assume(last == r.blen || r.buf[last] == LF);
    // no other LF inside the region
    let mut cnt = 0;
    i = 0;
    while i < FB {
        if i >= r.start && i < last && r.buf[i] == LF {
            cnt += 1;
        }
        i += 1;
    }
    nd.assume(cnt == r.l - 1);
    // a complete record is followed by a new header or by the end of the input
    nd.note("buffer", &r.buf[..r.blen]);
    nd.note_num("start", r.start as u64);
    nd.note_num("lines", (r.l - 1) as u64);
    r
}

pub const QB: usize = 10;

pub struct FqParts {
    pub buf: [u8; QB],
    pub blen: usize,
    pub pos0: usize,
    pub pos1: usize,
    pub seq: usize,
    pub sep: usize,
    pub qual: usize,
}

impl FqParts {
    pub fn buffer(&self) -> &[u8] {
        &self.buf[..self.blen]
    }
    pub fn bufpos(&self) -> fastq::VerifBufPos {
        fastq::VerifBufPos::new(self.pos0, self.pos1, self.seq, self.sep, self.qual)
    }
    fn trim(&self, a: usize, e: usize) -> (usize, usize) {
        let a = if a > e { e } else { a };
        (a, if e > a && self.buf[e - 1] == CR { e - 1 } else { e })
    }
    pub fn head(&self) -> (usize, usize) {
        self.trim(self.pos0 + 1, self.seq - 1)
    }
    pub fn seq_r(&self) -> (usize, usize) {
        self.trim(self.seq, self.sep - 1)
    }
    pub fn qual_r(&self) -> (usize, usize) {
        self.trim(self.qual, self.pos1)
    }
}

/// FASTQ record invariant (a complete, not necessarily valid, group of four lines):
/// seq/sep/qual are one past the first three LFs after pos0, pos1 is the fourth LF or the end
/// of the buffer
pub fn any_fq_record<N: Nd>(nd: &mut N, valid: bool) -> FqParts {
    let mut r = FqParts { buf: [0; QB], blen: 0, pos0: 0, pos1: 0, seq: 0, sep: 0, qual: 0 };
    let mut i = 0;
    while i < QB {
        r.buf[i] = nd.u8();
        i += 1;
    }
    r.blen = nd.usize_in(1, QB);
    r.pos0 = nd.usize_in(0, QB);
    r.seq = nd.usize_in(0, QB);
    r.sep = nd.usize_in(0, QB);
    r.qual = nd.usize_in(0, QB);
    r.pos1 = nd.usize_in(0, QB);
    nd.assume(r.pos0 < r.seq && r.seq < r.sep && r.sep < r.qual && r.qual <= r.pos1 && r.pos1 <= r.blen);
    nd.assume(r.buf[r.seq - 1] == LF && r.buf[r.sep - 1] == LF && r.buf[r.qual - 1] == LF);
    nd.assume(r.pos1 == r.blen || r.buf[r.pos1] == LF);
    let mut cnt = 0;
    i = 0;
    while i < QB {
        if i >= r.pos0 && i < r.pos1 && r.buf[i] == LF {
            cnt += 1;
        }
        i += 1;
    }
    nd.assume(cnt == 3);
    if valid {
        nd.assume(r.buf[r.pos0] == b'@' && r.buf[r.sep] == b'+');
        let (sa, sb) = r.seq_r();
        let (qa, qb) = r.qual_r();
        nd.assume(sb - sa == qb - qa);
    }
    nd.note("buffer", &r.buf[..r.blen]);
    nd.note_num("pos0", r.pos0 as u64);
    r
}

//! Record-set reads as a whole: `read_record_set_exact` of the real readers (its loop over
//! `search` / `resume_incomplete_search` / `increment_record`, the deferral of a format error behind
//! the records that precede it, the copy of the buffer into the set), twice in a row, on a reader
//! positioned at the start of a fully symbolic small file whose end is in view of the buffer.
//! The refill helper `seq_io::fill_buf` is cut by a stub that asserts it is never reached (the end of
//! the input is in view, so a refill cannot be needed): the cut is itself a proof obligation.
//! (C04, C03 via the sequential reference, C02/C01 contents, C06 built-in checks)
//!
//! NOT REGISTERED (tier=pilot): every instance tried (two calls: 2400 s timeout at 9.5 GB; one call +
//! post-state assertions: 22 GB after 2000 s; vectors with spare capacity) is beyond the solver here.
//! The pushes into `RecordSet::buf_positions` happen under symbolic conditions inside the loop of
//! `read_record_set_exact`, which makes the vector's length symbolic at every later access - the same
//! effect that was measured in isolation on the FASTA resume kernel (DESIGN §13.8).
use crate::c09::RecPolicy;
use crate::fqk::*;
use crate::nd::Nd;
use crate::spec::*;
use crate::src::*;
use seq_io::fastq::{self, Record};

#[cfg(kani)]
pub fn stub_fill_buf_unreachable<R: std::io::Read>(
    _r: &mut buffer_redux::BufReader<R, buffer_redux::policy::StdPolicy>,
) -> std::io::Result<usize> {
    kani::assert(false, "cut: no refill is attempted while the end of the input is in view");
    Ok(0)
}

/// second call after a successful set read that ended at reference item (p2, line2)
fn fq_second_call<const F: usize>(r: &mut fastq::Reader<Src<F>, RecPolicy>, rset: &mut fastq::RecordSet, exact: Option<usize>, f: &[u8], p2: usize, line2: u64) {
    let g2 = fq_group(f, p2);
    let v2 = fq_verdict_g(f, p2, &g2);
    let res2 = r.read_record_set_exact(rset, exact);
    match res2 {
        None => {
            vassert!(v2.end, "C04 a set read reports the end of the input only when no further group (or a blank tail) remains");
            vassert!(v2.end, "C03 set reads end where the sequential reader ends");
            vassert!(v2.end, "C02 end of input only when no further group (or a blank tail) remains");
            cover!(p2 < f.len(), "blank tail after the batch");
        }
        Some(Err(e)) => {
            vassert!(!v2.record || !v2.end, "C04 harness: verdict");
            check_error(&e, f, p2, line2, &g2, &v2);
            cover!(matches!(e, fastq::Error::InvalidStart { .. }), "deferred invalid start reported by the next set read");
            cover!(matches!(e, fastq::Error::UnexpectedEnd { .. }), "deferred truncation reported by the next set read");
            std::mem::forget(e);
        }
        Some(Ok(())) => {
            vassert!(v2.record, "C04 a further batch only when a further valid record exists");
            vassert!(v2.record, "C03 set reads return exactly the records the sequential reader returns");
            vassert!(rset.len() >= 1, "C04 a successful set read holds at least one record");
            let mut it = (&*rset).into_iter();
            if let Some(rec) = it.next() {
                check_record(&rec, f, &g2, &v2);
            }
            cover!(true, "second batch");
        }
    }
}

/// S: `read_record_set_exact(exact)` twice from a reader positioned at offset 0 (line 1) of a file
/// that lies completely inside the buffer
pub fn k_fq_rset<N: Nd, const F: usize, const EXACT: usize, const CALLS: usize>(nd: &mut N) {
    let exact = if EXACT == 0 { None } else { Some(EXACT) };
    let file: [u8; F] = any_file::<N, F>(nd);
    let n = nd.usize_in(0, F);
    nd.note("format", b"fastq");
    nd.note("file", &file[..n]);
    let f = &file[..n];
    let g1 = fq_group(f, 0);
    let v1 = fq_verdict_g(f, 0, &g1);
    let br = window::<F>(Src::plain(file, n), F + 1, 0);
    let pol = RecPolicy { answer: None, asked: 0, n: 0 };
    let mut r = fastq::Reader::verif_from_parts(br, pol, fastq::VerifBufPos::new(0, 0, 0, 0, 0), 0, 1, 0, 2);
    // vectors with spare capacity: the allocation paths of the first push / extend stay out of the formula
    let mut rset = fastq::RecordSet::verif_from_parts(Vec::with_capacity(16), Vec::with_capacity(4));
    let res1 = r.read_record_set_exact(&mut rset, exact);
    match res1 {
        None => {
            vassert!(v1.end, "C04 a set read reports the end of the input only when no further group (or a blank tail) remains");
            vassert!(v1.end, "C02 end of input only when no further group (or a blank tail) remains");
            let res2 = r.read_record_set_exact(&mut rset, exact);
            vassert!(res2.is_none(), "C20 after the end of the input set reads keep reporting the end");
            std::mem::forget(res2);
            cover!(n > 0, "blank file");
        }
        Some(Err(e)) => {
            check_error(&e, f, 0, 1, &g1, &v1);
            cover!(matches!(e, fastq::Error::UnequalLengths { .. }), "first group invalid");
            std::mem::forget(e);
        }
        Some(Ok(())) => {
            vassert!(v1.record, "C04 a batch is returned only when a valid record exists");
            // F is too small for two records: the batch holds exactly the first one
            vassert!(rset.len() == 1, "C04 the batch holds exactly the valid records found before the end, an error or the requested count");
            let mut it = (&rset).into_iter();
            let rec = it.next();
            vassert!(rec.is_some(), "C04 iterating the set yields the records of the batch");
            if let Some(rec) = rec {
                check_record(&rec, f, &g1, &v1);
                vassert!(same(rec.head(), f, fq_head(f, &g1)) && same(rec.seq(), f, fq_line(f, &g1, 1)) && same(rec.qual(), f, fq_line(f, &g1, 3)), "C04 records of a set have the content of the sequential records");
            }
            let rec2 = it.next();
            vassert!(rec2.is_none(), "C04 iterating the set yields only the records of the batch");
            std::mem::forget(rec2);
            cover!(g1.lfs == 3, "batch ending with a record without final terminator");
            cover!(g1.lfs == 4 && g1.next < n, "batch followed by further bytes");
            if CALLS == 1 {
                // post-state instead of a second call: what the next call will do is decided by it
                let g2 = fq_group(f, g1.next);
                let v2 = fq_verdict_g(f, g1.next, &g2);
                if g1.lfs == 4 && !v2.end {
                    vassert!(r.verif_state() != 3, "C04 a batch cut short by an invalid or truncated record leaves the reader able to report it");
                    vassert!(r.verif_state() != 3, "C03 a batch cut short by an invalid or truncated record leaves the reader able to report it");
                    vassert!(r.verif_buf_pos().0 == g1.next, "C04 after a batch the reader stands at the first record not delivered");
                    cover!(true, "batch followed by an invalid or truncated record");
                }
                if g1.lfs == 3 {
                    vassert!(r.verif_state() == 3, "C04 after the last record the reader is finished");
                }
            } else if g1.lfs == 4 {
                fq_second_call::<F>(&mut r, &mut rset, exact, f, g1.next, 5);
            } else {
                let res2 = r.read_record_set_exact(&mut rset, exact);
                vassert!(res2.is_none(), "C04 after the last record a set read reports the end");
                std::mem::forget(res2);
            }
        }
    }
    std::mem::forget(rset);
    std::mem::forget(r);
}

pub fn k_fq_rset_f8_any<N: Nd>(nd: &mut N) {
    k_fq_rset::<N, 8, 0, 2>(nd)
}
pub fn k_fq_rset1_f8_any<N: Nd>(nd: &mut N) {
    k_fq_rset::<N, 8, 0, 1>(nd)
}
pub fn k_fq_rset1_f8_exact2<N: Nd>(nd: &mut N) {
    k_fq_rset::<N, 8, 2, 1>(nd)
}
pub fn k_fq_rset_f7_any<N: Nd>(nd: &mut N) {
    k_fq_rset::<N, 7, 0, 2>(nd)
}
pub fn k_fq_rset_f8_exact2<N: Nd>(nd: &mut N) {
    k_fq_rset::<N, 8, 2, 2>(nd)
}

harnesses! {
    /// @meta props=X00 tier=pilot kind=S timeout=2400 mem=24 unwind=10 unwindset="read_record_set_exact:4;_resume_incomplete_search:2" bounds="fastq::Reader::read_record_set twice in a row from a reader positioned at the start of every file <= 8 bytes lying completely inside the buffer (one record + tail: blank tail, invalid or truncated next record, last record without terminator)"
    #[kani::stub(std::string::String::from_utf8_lossy, crate::src::stub_lossy_empty)]
    #[kani::stub(seq_io::fill_buf, crate::rsk::stub_fill_buf_unreachable)]
    rsk_fq_rset_f8_any => k_fq_rset_f8_any;
    /// @meta props=X00 tier=pilot kind=S stage2=pub timeout=2400 mem=24 unwind=10 unwindset="read_record_set_exact:4;_resume_incomplete_search:2" bounds="pilot"
    #[kani::stub(std::string::String::from_utf8_lossy, crate::src::stub_lossy_empty)]
    #[kani::stub(seq_io::fill_buf, crate::rsk::stub_fill_buf_unreachable)]
    rsk_fq_rset1_f8_any => k_fq_rset1_f8_any;
    /// @meta props=X00 tier=pilot kind=S stage2=pub timeout=2400 mem=24 unwind=10 unwindset="read_record_set_exact:4;_resume_incomplete_search:2" bounds="pilot"
    #[kani::stub(std::string::String::from_utf8_lossy, crate::src::stub_lossy_empty)]
    #[kani::stub(seq_io::fill_buf, crate::rsk::stub_fill_buf_unreachable)]
    rsk_fq_rset1_f8_exact2 => k_fq_rset1_f8_exact2;
    /// @meta props=X00 tier=pilot kind=S timeout=2400 mem=24 unwind=9 unwindset="read_record_set_exact:4;_resume_incomplete_search:2" bounds="pilot"
    #[kani::stub(std::string::String::from_utf8_lossy, crate::src::stub_lossy_empty)]
    #[kani::stub(seq_io::fill_buf, crate::rsk::stub_fill_buf_unreachable)]
    rsk_fq_rset_f7_any => k_fq_rset_f7_any;
    /// @meta props=X00 tier=pilot kind=S timeout=2400 mem=24 unwind=10 unwindset="read_record_set_exact:4;_resume_incomplete_search:2" bounds="as rsk_fq_rset_f8_any with read_record_set_exact(2)"
    #[kani::stub(std::string::String::from_utf8_lossy, crate::src::stub_lossy_empty)]
    #[kani::stub(seq_io::fill_buf, crate::rsk::stub_fill_buf_unreachable)]
    rsk_fq_rset_f8_exact2 => k_fq_rset_f8_exact2;
}

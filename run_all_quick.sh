#!/bin/bash
# runs every claimed property's quick check in sequence (evidence is rewritten by each)
cd /verif
for p in $(python3 -c "import json;print(' '.join(c['property_id'] for c in json.load(open('MANIFEST.json'))['checks']))"); do
  s=$(date +%s)
  python3 check.py $p --tier ${1:-quick} > .work/logs/run_$p.out 2>&1
  rc=$?
  echo "$p rc=$rc $(( $(date +%s) - s ))s $(tail -1 .work/logs/run_$p.out)"
done

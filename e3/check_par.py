#!/usr/bin/env python3
"""check_par.py <C07|C08|C15|C16> [--tier quick|thorough]

Engine E3: the thread-pool protocol of src/parallel.rs.
  1. dumps the MIR of /repo's current working tree with the nightly toolchain (scratch copy),
  2. extracts the communication automata of main / reader / job from the MIR (mirx.py),
  3. builds the z3 transition system (bmc.py) for each configuration (queue_len, n_threads, max sets),
  4. discharges the property's reachability queries by bounded model checking; the schedule, the
     outcomes of blocking operations, the number of record sets, the reader error, failing
     initialisers and the consumer's behaviour are all symbolic,
  5. replays a counterexample natively against the real functions (e3/replayer) before reporting it.
exit 0 held / 1 VIOLATION (reproduced) / 2 inconclusive (extraction failed, not reproduced, timeout)
"""
import json
import re
import os
import shutil
import subprocess
import sys
import time

HERE = os.path.dirname(os.path.abspath(__file__))
VERIF = os.path.dirname(HERE)
sys.path.insert(0, HERE)
WORK = os.path.join(VERIF, ".work")
import z3  # noqa: E402
import mirx  # noqa: E402
import bmc  # noqa: E402


REPO = os.environ.get("E3_REPO", "/repo")  # E3_REPO: only for trying seeded changes in a scratch copy
# a scratch run must not touch the evidence and replay files of the registered checks
_SCRATCH = "E3_REPO" in os.environ
EVID_DIR = os.path.join(VERIF, ".work", "evidence-partial") if _SCRATCH else os.path.join(VERIF, "evidence")
REPLAY_DIR = os.path.join(VERIF, ".work", "replays-alt-%d" % os.getpid()) if _SCRATCH else os.path.join(VERIF, "replays")


def dump_mir():
    src = os.path.join(WORK, "e3src-%d" % os.getpid())
    shutil.rmtree(src, ignore_errors=True)
    os.makedirs(src)
    for f in ("Cargo.toml", "Cargo.lock"):
        # Cargo.lock is not tracked: a scratch worktree (E3_REPO) does not have it
        shutil.copy(os.path.join(REPO, f) if os.path.exists(os.path.join(REPO, f)) else os.path.join("/repo", f), src)
    shutil.copytree(os.path.join(REPO, "src"), os.path.join(src, "src"))
    for d in ("benches", "tests"):
        if os.path.isdir(os.path.join(REPO, d)):
            shutil.copytree(os.path.join(REPO, d), os.path.join(src, d))
    # scratch runs (E3_REPO) get their own target directory so that concurrent runs do not collide
    tgt = os.path.join(WORK, "e3target" if REPO == "/repo" else "e3target-%d" % os.getpid())
    env = dict(os.environ, CARGO_NET_OFFLINE="true", CARGO_TARGET_DIR=tgt)
    env.pop("RUSTFLAGS", None)
    p = subprocess.run(["cargo", "+nightly", "rustc", "--offline", "--lib", "--", "-Zunpretty=mir", "-C", "debug-assertions=off"],
                       cwd=src, env=env, capture_output=True, text=True, timeout=900)
    shutil.rmtree(src, ignore_errors=True)
    if REPO != "/repo":
        shutil.rmtree(tgt, ignore_errors=True)
    if p.returncode != 0 or "fn read_parallel_init" not in p.stdout:
        raise mirx.Unrecognised("MIR dump failed: " + p.stderr[-500:])
    return p.stdout


WRAPPED = r"(read_parallel_init|read_parallel|parallel_fast[aq]_init|parallel_fast[aq]|parallel_records)"


def check_wrappers(mir):
    """The public wrappers (read_parallel, parallel_fasta/fastq(_init), parallel_records) reach
    read_parallel_init through plain calls.  The model is parameterised by the n_threads / queue_len that
    read_parallel_init receives; the properties speak about the values the *user* passes.  Extraction
    rule: every wrapper hands its own u32 (n_threads) and usize (queue_len) parameters on unchanged;
    anything else is outside the recognised vocabulary.  Returns the names of the wrappers checked."""
    seen = []
    fns = list(re.finditer(r"^fn ([A-Za-z_0-9]+)\(([^\n]*?)\) -> [^\n]*\{\n(.*?)^\}", mir, re.M | re.S))

    def positions(params):
        ps = [x.strip() for x in params.split(", _")]
        iu = [i for i, x in enumerate(ps) if re.search(r"^_?\d+: u32$", x)]
        iz = [i for i, x in enumerate(ps) if re.search(r"^_?\d+: usize$", x)]
        return (iu[0], iz[0]) if iu and iz else None

    sig = {m.group(1): positions(m.group(2)) for m in fns}
    for m in fns:
        name, params, body = m.groups()
        calls = [(l, c.group(1)) for l in body.splitlines() for c in [re.search(r"= " + WRAPPED + r"::<", l)] if c]
        if not calls or name.startswith("test"):
            continue
        pu32 = re.search(r"(_\d+): u32", params)
        pusz = re.search(r"(_\d+): usize", params)
        if not pu32 or not pusz:
            raise mirx.Unrecognised("wrapper %s calls a parallel entry point but has no (u32, usize) parameters" % name)
        for l, callee in calls:
            if not sig.get(callee):
                raise mirx.Unrecognised("wrapper %s calls %s whose signature has no (u32, usize) parameters" % (name, callee))
            a = re.search(r">\(((?:copy|move) _\d+(?:, (?:copy|move) _\d+)*)", l)
            args = [x.split()[-1] for x in a.group(1).split(", ")] if a else []
            iu, iz = sig[callee]
            if len(args) <= max(iu, iz) or args[iu] != pu32.group(1) or args[iz] != pusz.group(1):
                raise mirx.Unrecognised("wrapper %s does not pass its n_threads / queue_len parameters through unchanged: %s" % (name, l.strip()[:160]))
        for prm in (pu32.group(1), pusz.group(1)):
            if re.search(r"^\s*%s = " % re.escape(prm), body, re.M):
                raise mirx.Unrecognised("wrapper %s reassigns its parameter %s" % (name, prm))
        seen.append(name)
    if "read_parallel" not in seen:
        raise mirx.Unrecognised("read_parallel is not a plain wrapper around read_parallel_init any more")
    return seen


class Run:
    def __init__(self, mir, QL, NTHR, KMAX, depth):
        self.cfg = (QL, NTHR, KMAX)
        self.ex, self.main, self.reader, self.job = mirx.extract(mir, QL, KMAX, NTHR)
        self.M = bmc.Model(self.main, self.reader, self.job, QL, NTHR, KMAX)
        self.D = depth
        self.S = [self.M.state(t) for t in range(depth + 1)]
        self.sel = [z3.BitVec("sel@%d" % t, 10) for t in range(depth)]
        self.solver = z3.SolverFor("QF_BV")
        self.solver.set("timeout", 1000 * 1800)
        self.solver.add(self.M.scen)
        self.solver.add(self.M.init(self.S[0]))
        for t in range(depth):
            self.solver.add(z3.ULE(self.sel[t], self.M.E))
            self.solver.add(self.M.step(self.S[t], self.S[t + 1], self.sel[t]))
        self.queries = []

    def query(self, name, cond_at, extra=None, expect_unsat=True):
        """is there a run reaching a state satisfying cond_at(S_t) for some t<=D?"""
        t0 = time.time()
        self.solver.push()
        if extra is not None:
            self.solver.add(extra)
        self.solver.add(z3.Or([cond_at(self.S[t]) for t in range(self.D + 1)]))
        r = self.solver.check()
        dt = time.time() - t0
        res = dict(query=name, config=dict(queue_len=self.cfg[0], n_threads=self.cfg[1], max_sets=self.cfg[2], depth=self.D),
                   result=str(r), solver_s=round(dt, 2))
        if r == z3.sat:
            res["trace"] = self.decode(self.solver.model(), cond_at)
        self.solver.pop()
        self.queries.append(res)
        return res

    def query_final(self, name, cond):
        t0 = time.time()
        self.solver.push()
        self.solver.add(cond(self.S[self.D]))
        r = self.solver.check()
        res = dict(query=name, config=dict(queue_len=self.cfg[0], n_threads=self.cfg[1], max_sets=self.cfg[2], depth=self.D),
                   result=str(r), solver_s=round(time.time() - t0, 2))
        if r == z3.sat:
            res["trace"] = self.decode(self.solver.model(), None)
        self.solver.pop()
        self.queries.append(res)
        return res

    def decode(self, m, cond_at):
        M = self.M
        tr = []
        upto = self.D
        if cond_at is not None:
            for t in range(self.D + 1):
                if z3.is_true(m.eval(cond_at(self.S[t]), model_completion=True)):
                    upto = t
                    break
        for t in range(min(upto, self.D)):
            e = m.eval(self.sel[t], model_completion=True).as_long()
            if e == M.E:
                tr.append(["-", "stutter"])
                continue
            tid, s, l, d = M.edges[e]
            role, A, j = M.auts[tid]
            tr.append([role if j is None else "job%d" % j[0], [" ".join(map(str, x)) for x in l]])
        ev = lambda x: str(m.eval(x, model_completion=True))
        return dict(scenario=dict(sets=ev(M.K), reader_error=ev(M.ENDERR), reader_init_fails=ev(M.RIFAIL), dataset_init_fails_at_call=ev(M.DIFAIL)),
                    steps=tr, last_state={k: ev(v) for k, v in self.S[upto].items() if k in ("ndeliv", "nerrdeliv", "created", "nfill", "panic", "sawnone", "dup", "badpair", "badorder", "qD_len", "qE_len", "sD", "rD", "sE", "rE", "pc0", "pc1")})


def obs_of(prim, role):
    """observable event of a primitive action (what the user closures of a native run can log), or None"""
    a = prim[0]
    if role == "main":
        if a == "init_d":
            return "init_d " + prim[1]
        if a in ("deliver", "deliver_err", "deliver_none"):
            return a
    elif role == "reader":
        if a == "init_r":
            return "init_r " + prim[1]
        if a == "fill":
            return "fill " + prim[1]
    elif role == "job":
        if a == "work":
            return "work"
    return None


def accepts(A, role, seq):
    """is `seq` the observable projection of a complete path of automaton A (from init to an end)?"""
    out = {}
    for s, L, d in A.edges:
        out.setdefault(s, []).append((L, d))
    seen = set()
    stack = [(A.init, 0)]
    while stack:
        st, i = stack.pop()
        if (st, i) in seen:
            continue
        seen.add((st, i))
        if st not in out and i == len(seq):
            return True
        for L, d in out.get(st, []):
            j = i
            ok = True
            for prim in L:
                o = obs_of(prim, role)
                if o is None:
                    continue
                if j < len(seq) and seq[j] == o:
                    j += 1
                else:
                    ok = False
                    break
            if ok:
                stack.append((d, j))
    return False


ANOMALIES = []


def validate_translation(run):
    """runs the real functions natively under a grid of scenarios and checks that every thread's
    observable event sequence is accepted by the automaton extracted from the MIR"""
    QL, NTHR, KMAX = run.cfg
    ok_n, bad = 0, []
    grid = []
    for sets in range(0, KMAX + 1):
        for err in (False, True):
            grid.append(dict(sets=sets, reader_error=err, reader_init_fails=False, dataset_init_fails_at_call=-1))
    grid.append(dict(sets=1, reader_error=False, reader_init_fails=True, dataset_init_fails_at_call=-1))
    for i in range(0, QL + 1):
        grid.append(dict(sets=1, reader_error=False, reader_init_fails=False, dataset_init_fails_at_call=i))
    for sc in grid:
        q = dict(config=dict(queue_len=QL, n_threads=NTHR), trace=dict(scenario={k: str(v) for k, v in sc.items()}, steps=[]), query="validation")
        f = native_facts(q, attempts=1)
        if not f or "events" not in f:
            bad.append((sc, "native run unavailable"))
            continue
        if f.get("hung") or f.get("panicked"):
            # the real code misbehaves under this scenario: nothing to validate the automata against;
            # the queries below are expected to find it (if they do not, the run ends INCONCLUSIVE)
            ANOMALIES.append((sc, "hung" if f.get("hung") else "panicked"))
            continue
        ev = f["events"]
        main_seq, reader_seq, jobs = [], [], 0
        for e in ev:
            if e.startswith("init_d"):
                i = int(e.split()[1])
                main_seq.append("init_d " + ("err" if i == sc["dataset_init_fails_at_call"] else "ok"))
            elif e.startswith("deliver_") or e.startswith("deliver "):
                main_seq.append(e.split()[0])
            elif e == "init_r":
                reader_seq.append("init_r " + ("err" if sc["reader_init_fails"] else "ok"))
            elif e.startswith("fill"):
                reader_seq.append(e)
            elif e.startswith("work"):
                jobs += 1
        good = accepts(run.main, "main", main_seq) and accepts(run.reader, "reader", reader_seq) and (jobs == 0 or accepts(run.job, "job", ["work"]))
        if good:
            ok_n += 1 + 1 + jobs
        else:
            bad.append((sc, "trace rejected: main=%s reader=%s" % (main_seq, reader_seq)))
    return ok_n, bad


def not_terminated(M):
    """a run that is still going (neither terminated, panicked nor deadlocked)"""
    return lambda S: z3.And(z3.Not(M.terminated(S)), z3.Not(S["panic"]), M.any_enabled(S))


def props(run, prop):
    M = run.M
    K, QL = M.K, M.QL
    out = []
    noinit = z3.And(z3.Not(M.RIFAIL), M.DIFAIL < 0)
    main_ok = lambda S: z3.Or([S["pc0"] == e for e in M.main_end_ok])
    main_err = lambda S: z3.Or([S["pc0"] == e for e in M.main_end_err])
    if prop == "C07":
        out.append(run.query("no record set is delivered twice or with another set's output (any consumer)",
                             lambda S: z3.Or(S["dup"], S["badpair"])))
        out.append(run.query("a draining consumer receives every record set exactly once",
                             lambda S: z3.And(M.terminated(S), S["sawnone"], z3.Or([z3.And(K > b, S["cnt%d" % b] != 1) for b in range(M.KMAX)])),
                             extra=z3.And(noinit, z3.Not(M.ENDERR))))
        if M.NTHR == 1:
            out.append(run.query("with one worker thread the sets arrive in file order", lambda S: S["badorder"]))
    elif prop == "C08":
        out.append(run.query("no deadlock: in every reachable non-terminated state some thread can move",
                             lambda S: z3.And(z3.Not(M.terminated(S)), z3.Not(S["panic"]), z3.Not(M.any_enabled(S)))))
        out.append(run.query_final("every run has terminated within the depth bound", lambda S: z3.And(z3.Not(M.terminated(S)), z3.Not(S["panic"]))))
    elif prop == "C15":
        out.append(run.query("no panic (unwrap on a closed channel / failed join) in any scenario", lambda S: S["panic"]))
        out.append(run.query("the reader's error is delivered at most once", lambda S: S["nerrdeliv"] > 1))
        out.append(run.query("a draining consumer receives the error exactly once and every earlier set exactly once",
                             lambda S: z3.And(M.terminated(S), S["sawnone"], z3.Or(S["nerrdeliv"] != 1, z3.Or([z3.And(K > b, S["cnt%d" % b] != 1) for b in range(M.KMAX)]))),
                             extra=z3.And(noinit, M.ENDERR)))
        out.append(run.query("a failing initialisation closure is returned as an error",
                             lambda S: z3.And(M.terminated(S), main_ok(S), z3.Or(M.RIFAIL, z3.And(M.DIFAIL >= 0, S["ndi"] > M.DIFAIL)))))
        out.append(run.query("without failing closures the call returns Ok",
                             lambda S: z3.And(M.terminated(S), main_err(S)), extra=noinit))
    elif prop == "C16":
        out.append(run.query("at most queue_len + 1 data sets are ever created", lambda S: S["created"] > QL + 1))
        out.append(run.query("the reader is never more than queue_len + 1 sets ahead of the consumer",
                             lambda S: S["nfill"] - S["ndeliv"] > QL + 1))
    return out


CONFIGS = {
    # (queue_len, n_threads, max record sets, depth)
    "quick": [(2, 2, 2, 30), (1, 2, 2, 28)],
    "thorough": [(2, 2, 2, 30), (1, 2, 2, 28), (1, 1, 2, 28), (2, 1, 2, 30), (3, 2, 2, 32)],
}


def main():
    prop = sys.argv[1]
    tier = "quick"
    if "--tier" in sys.argv:
        tier = sys.argv[sys.argv.index("--tier") + 1]
    t0 = time.time()
    os.makedirs(EVID_DIR, exist_ok=True)
    os.makedirs(REPLAY_DIR, exist_ok=True)
    allq, funcs, states, transitions = [], [], 0, 0
    validated = 0
    rc = 0
    try:
        mir = dump_mir()
        wrappers = check_wrappers(mir)
        print("  wrappers passing n_threads / queue_len through unchanged: %s" % ", ".join(wrappers), flush=True)
        for (QL, NTHR, KMAX, D) in CONFIGS[tier]:
            run = Run(mir, QL, NTHR, KMAX, D)
            funcs = list(run.ex.functions_encoded) + ["%s (wrapper: n_threads / queue_len passed through unchanged)" % w for w in wrappers]
            states += run.main.n + run.reader.n + sum(a.n for a in getattr(run.job, 'kinds', [run.job]))
            transitions += run.M.E
            # the depth bound must be sufficient: checked for every property, not only C08
            nval, badtr = validate_translation(run)
            validated += nval
            for sc, why in badtr:
                print("INCONCLUSIVE: translator validation failed for scenario %s: %s" % (sc, why))
                rc = max(rc, 2)
            term = run.query_final("depth bound sufficient (no run is still going at the bound)", not_terminated(run.M))
            if term["result"] != "unsat":
                print("INCONCLUSIVE: depth bound %d not sufficient for config %s" % (D, (QL, NTHR, KMAX)))
                rc = max(rc, 2)
            qs = props(run, prop)
            allq += [term] + qs
            for q in qs:
                print("  [%s] ql=%d thr=%d k<=%d depth=%d  %-90s %s  %.1fs" % (prop, QL, NTHR, KMAX, D, q["query"], q["result"], q["solver_s"]), flush=True)
    except mirx.Unrecognised as e:
        print("INCONCLUSIVE: the protocol bodies of src/parallel.rs contain something outside the recognised vocabulary: %s" % e)
        write_evidence(prop, tier, allq, funcs, states, transitions, time.time() - t0, 0, [], note=str(e))
        return 2
    known = json.load(open(os.path.join(VERIF, "known_findings.json"))).get("findings", [])
    viol, known_hits = [], []
    for q in allq:
        if q["result"] == "sat":
            k = [f for f in known if f.get("status") == "known" and f["property"] == prop and f.get("label", "") in q["query"]]
            if k:
                known_hits.append((q, k[0]))
            else:
                viol.append(q)
        elif q["result"] != "unsat":
            print("INCONCLUSIVE: solver answered %s for %s" % (q["result"], q["query"]))
            rc = max(rc, 2)
    for q, k in known_hits:
        print("KNOWN-FINDING: property=%s %s" % (prop, k.get("what", q["query"])))
    for i, q in enumerate(viol):
        rep = native_replay(q)
        q["native"] = rep
        path = os.path.join(REPLAY_DIR, "%s-e3-%d.json" % (prop, i))
        json.dump(q, open(path, "w"), indent=1)
        if rep.get("reproduced"):
            print("VIOLATION property=%s replay=%s" % (prop, path))
            print("   query: %s   config: %s   scenario: %s" % (q["query"], q["config"], q["trace"]["scenario"]))
            rc = 1 if rc != 1 else rc
            rc = 1
        else:
            print("INCONCLUSIVE: counterexample of the model not reproduced natively (%s): %s" % (rep.get("why", ""), q["query"]))
            rc = max(rc, 2) if rc != 1 else 1
    if ANOMALIES and not viol and not known_hits:
        for sc, what in ANOMALIES[:3]:
            print("INCONCLUSIVE: the real functions %s natively under scenario %s but no query of %s is violated in the model" % (what, sc, prop))
        rc = max(rc, 2) if rc != 1 else 1
    write_evidence(prop, tier, allq, funcs, states, transitions, time.time() - t0, len([q for q in viol if q.get("native", {}).get("reproduced")]),
                   [k.get("what", "") for _, k in known_hits], validated=validated)
    print("%s tier=%s queries=%d unsat=%d sat=%d wall=%.0fs" % (prop, tier, len(allq), sum(1 for q in allq if q["result"] == "unsat"),
                                                               sum(1 for q in allq if q["result"] == "sat"), time.time() - t0))
    return rc


def schedule_of(steps):
    """time-triggered schedule for the native replay: every step of the counterexample gets a slot;
    the events the user closures can delay are mapped to the slot of the step they belong to.
    work of job j starts in the slot of its `work` step and ENDS in the slot of the job's send step,
    so that a result can be made to arrive late."""
    sched = {}
    nfill = nnext = ninit = 0
    for i, (thr, prims) in enumerate(steps):
        for pr in prims:
            if pr.startswith("fill "):
                sched["fill%d" % nfill] = i
                nfill += 1
            elif pr == "c_next":
                sched["next%d" % nnext] = i
                nnext += 1
            elif pr.startswith("init_d "):
                sched["init_d%d" % ninit] = i
                ninit += 1
            elif pr.startswith("init_r "):
                sched["init_r"] = i
            elif pr.startswith("work ") and thr.startswith("job"):
                sched["work%s" % thr[3:]] = i
            elif pr.startswith("send_D") and thr.startswith("job"):
                sched["workend%s" % thr[3:]] = i
    return sched


def native_facts(q, attempts=3):
    r = native_replay(q, attempts=attempts, raw=True)
    return r


def native_replay(q, attempts=3, raw=False):
    exe = os.path.join(WORK, "e3replay-target", "release", "e3replay")
    if REPO != "/repo":
        exe = os.path.join(WORK, "e3replay-alt-target-%d" % os.getpid(), "release", "e3replay")
    if not getattr(native_replay, "built", False):
        native_replay.built = True
        env = dict(os.environ, CARGO_NET_OFFLINE="true")
        env.pop("RUSTFLAGS", None)
        src, tgt = os.path.join(HERE, "replayer"), os.path.join(WORK, "e3replay-target")
        if REPO != "/repo":
            # scratch copy of the replayer pointing at the scratch repository
            src = os.path.join(WORK, "e3replay-alt-%d" % os.getpid())
            shutil.rmtree(src, ignore_errors=True)
            shutil.copytree(os.path.join(HERE, "replayer"), src)
            ct = open(os.path.join(src, "Cargo.toml")).read().replace('path = "/repo"', 'path = "%s"' % REPO)
            open(os.path.join(src, "Cargo.toml"), "w").write(ct)
            tgt = os.path.join(WORK, "e3replay-alt-target-%d" % os.getpid())
        subprocess.run(["cargo", "build", "--offline", "--release", "--target-dir", tgt],
                       cwd=src, env=env, capture_output=True, text=True)
    if not os.path.exists(exe):
        return dict(reproduced=False, why="replayer does not build")
    try:
        p = subprocess.run([exe, json.dumps(dict(config=q["config"], scenario=q["trace"]["scenario"], schedule=schedule_of(q["trace"]["steps"]),
                                                 calls=sum(1 for st in q["trace"]["steps"] for pr in st[1] if pr == "c_next") if q["trace"]["steps"] else -1,
                                                 query=q["query"], attempts=attempts))],
                           capture_output=True, text=True, timeout=120)
        last = [l for l in p.stdout.splitlines() if l.startswith("{")]
        if not last:
            return dict(reproduced=False, why="no output", raw=p.stdout[-500:] + p.stderr[-500:])
        runs = [json.loads(l) for l in last]
        if raw:
            return runs[-1]
        for f in runs:
            if observed_violation(q["query"], f, q["trace"]["scenario"]):
                f["reproduced"] = True
                return f
        f = runs[-1]
        f["reproduced"] = False
        f["why"] = "the real run under the counterexample's scenario and schedule does not show the violation"
        return f
    except subprocess.TimeoutExpired:
        return dict(reproduced=False, why="replayer timed out")


def observed_violation(query, f, scen):
    """does the native run show what the query's counterexample claims?"""
    sets = f["sets"]
    dl = f["delivered"]
    if "no panic" in query:
        return f["panicked"]
    if "deadlock" in query or "terminated within" in query or "depth bound" in query:
        return f["hung"]
    if "delivered twice or with another" in query:
        return len(set(dl)) != len(dl) or any(a != b for a, b in zip(dl, f["outs"]))
    if "every record set exactly once" in query:
        return f["none_seen"] and sorted(dl) != list(range(sets))
    if "file order" in query:
        return dl != sorted(dl)
    if "at most once" in query:
        return f["errs"] > 1
    if "error exactly once" in query:
        return f["none_seen"] and (f["errs"] != 1 or sorted(dl) != list(range(sets)))
    if "returned as an error" in query:
        return f["result"] == "Ok"
    if "returns Ok" in query:
        return f["result"].startswith("Err")
    if "data sets are ever created" in query:
        return f["created"] > f["queue_len"] + 1
    if "ahead of the consumer" in query:
        return False
    return False


def write_evidence(prop, tier, allq, funcs, states, transitions, wall, nviol, known, note="", validated=0):
    ev = dict(
        property_id=prop, tier=tier, seed=int(os.environ.get("VERIF_SEED", "0") or 0), level="model_checking",
        coverage=dict(
            states=max(states, 1), transitions=max(transitions, 1), traces_validated_against_impl=validated,
            samples=allq[:12] if allq else [note or "no query ran"],
            evaluations=max(len(allq), 1), distinct_nontrivial=sum(1 for q in allq if q["result"] in ("sat", "unsat")),
            rule="states/transitions = control states and edges of the thread automata extracted from the MIR (summed over configurations); "
                 "one evaluation = one z3 bounded-model-checking query over all interleavings, outcomes and scenarios up to the depth bound",
            functions_encoded=funcs,
            queries_unsat=sum(1 for q in allq if q["result"] == "unsat"),
            queries_sat=sum(1 for q in allq if q["result"] == "sat"),
            solver_time_s=round(sum(q["solver_s"] for q in allq), 1),
            known_findings_reported=known,
            engine="nightly MIR dump of /repo -> mirx.py (abstract interpretation) -> bmc.py (z3 %s)" % z3.get_version_string(),
            exhaustive=False,
        ),
        assumptions=[
            "axioms for std::sync::mpsc::sync_channel (FIFO, bounded, blocking send/recv, failure on disconnect), crossbeam scoped threads (scope joins), scoped_threadpool (FIFO job queue, n workers, join_all / scope exit wait for all jobs)",
            "data abstraction: record sets are tokens with ghost fields (batch filled, batch seen by the worker); per-record pairing inside a set is not modelled",
            "user closures do not panic; the consumer does not call next() again after the end marker; sequentially consistent interleavings",
            "bounds: queue_len, n_threads, number of sets and depth as listed per query",
        ],
        wall_s=round(wall, 1), violations=nviol)
    json.dump(ev, open(os.path.join(EVID_DIR, prop + ".json"), "w"), indent=1)


if __name__ == "__main__":
    sys.exit(main())

//! FASTQ kernels: one private transition function of the real reader, once, from a symbolic
//! state built with the hook constructor over a window of a fully symbolic small file.
//! (C02, C05, C06, C12, C17 for FASTQ; assertion labels name the property they decide.)
use crate::nd::Nd;
use crate::spec::*;
use crate::src::*;
use buffer_redux::BufReader;
use seq_io::fastq::{self, Record};
use seq_io::policy::StdPolicy;
use std::io::{Seek, SeekFrom};

pub fn any_file<N: Nd, const F: usize>(nd: &mut N) -> [u8; F] {
    let mut f = [0u8; F];
    let mut i = 0;
    while i < F {
        f[i] = nd.u8();
        i += 1;
    }
    f
}

/// a == f[r.0..r.1]
pub fn same(a: &[u8], f: &[u8], r: (usize, usize)) -> bool {
    if a.len() != r.1 - r.0 {
        return false;
    }
    let mut ok = true;
    let mut i = 0;
    while i < f.len() {
        if i < a.len() && a[i] != f[r.0 + i] {
            ok = false;
        }
        i += 1;
    }
    ok
}

/// BufReader over `file[..n]` whose buffer holds `file[off .. min(off+cap, n)]`
/// (one real seek + one real read through buffer-redux)
pub fn window<const F: usize>(src: Src<F>, cap: usize, off: usize) -> BufReader<Src<F>> {
    let mut br = BufReader::with_capacity(cap, src);
    if off > 0 {
        let r = br.seek(SeekFrom::Start(off as u64));
        std::mem::forget(r);
    }
    let r = br.read_into_buf();
    std::mem::forget(r);
    br
}

pub struct FqState {
    pub pos0: usize,
    pub pos1: usize,
    pub seq: usize,
    pub sep: usize,
    pub qual: usize,
    pub inc: u8,
    pub line: u64,
    pub byte: u64,
    pub state: u8,
}

pub fn fq_reader<const F: usize>(br: BufReader<Src<F>>, s: &FqState) -> fastq::Reader<Src<F>, StdPolicy> {
    fastq::Reader::verif_from_parts(
        br,
        StdPolicy,
        fastq::VerifBufPos::new(s.pos0, s.pos1, s.seq, s.sep, s.qual),
        s.inc,
        s.line,
        s.byte,
        s.state,
    )
}

/// symbolic cursor: window offset, record start inside the window, file coordinates
pub struct Cursor {
    pub n: usize,
    pub off: usize,
    pub p: usize, // file offset of the record start (>= off)
    pub line0: u64,
}

pub fn any_cursor<N: Nd, const F: usize>(nd: &mut N, with_off: bool) -> Cursor {
    let n = nd.usize_in(0, F);
    let off = if with_off { nd.usize_in(0, n) } else { 0 };
    let p = nd.usize_in(off, n);
    let line0 = nd.u64();
    nd.assume(line0 >= 1 && line0 < (1 << 40));
    Cursor { n, off, p, line0 }
}

/// error fields against the reference (C17) and the kind against the admissible set (C02)
pub fn check_error(e: &fastq::Error, f: &[u8], p: usize, line0: u64, g: &FqGroup, v: &FqVerdict) {
    match e {
        fastq::Error::InvalidStart { found, pos } => {
            vassert!(v.invalid_start, "C02 invalid-start error only for a group not starting with '@'");
            vassert!(*found == f[p], "C17 invalid start reports the byte found");
            vassert!(pos.line == line0, "C17 invalid start reports the header line");
        }
        fastq::Error::InvalidSep { found, pos } => {
            vassert!(v.invalid_sep, "C02 invalid-separator error only for a third line not starting with '+'");
            vassert!(*found == f[g.starts[2]], "C17 invalid separator reports the byte found");
            vassert!(pos.line == line0 + 2, "C17 invalid separator reports the separator line");
        }
        fastq::Error::UnequalLengths { seq, qual, pos } => {
            vassert!(v.unequal, "C02 unequal-lengths error only when the lengths differ");
            let (sa, sb) = fq_line(f, g, 1);
            let (qa, qb) = fq_line(f, g, 3);
            vassert!(*seq == sb - sa && *qual == qb - qa, "C17 unequal lengths reports the actual lengths");
            vassert!(pos.line == line0, "C17 unequal lengths reports the header line");
        }
        fastq::Error::UnexpectedEnd { pos } => {
            vassert!(v.unexpected_end, "C02 unexpected-end error only for a truncated group");
            vassert!(pos.line == line0 + count_lf(f, p, f.len()) as u64, "C17 unexpected end reports the line on which the input ends");
        }
        _ => {
            vassert!(false, "C02 no buffer-limit or I/O error from a faultless source");
        }
    }
}

pub fn check_record(rec: &fastq::RefRecord, f: &[u8], g: &FqGroup, v: &FqVerdict) {
    vassert!(v.record, "C02 a record is returned only for a valid group of four lines");
    vassert!(same(rec.head(), f, fq_head(f, g)), "C02 header content");
    vassert!(same(rec.seq(), f, fq_line(f, g, 1)), "C02 sequence content");
    vassert!(same(rec.qual(), f, fq_line(f, g, 3)), "C02 quality content");
}

/// K: `search` from a record start anywhere in a window at any file offset
pub fn k_search<N: Nd, const F: usize>(nd: &mut N) {
    let file: [u8; F] = any_file::<N, F>(nd);
    let c = any_cursor::<N, F>(nd, true);
    let byte0 = c.p as u64;
    nd.note("format", b"fastq");
    nd.note("file", &file[c.p..c.n]);
    let br = window::<F>(Src::plain(file, c.n), F + 1, c.off);
    let st = FqState { pos0: c.p - c.off, pos1: 0, seq: 0, sep: 0, qual: 0, inc: 0, line: c.line0, byte: byte0, state: 1 };
    let mut r = fq_reader(br, &st);
    let res = r.verif_search();
    let f = &file[..c.n];
    let g = fq_group(f, c.p);
    let v = fq_verdict_g(f, c.p, &g);
    let (p0, p1, seq, sep, qual) = r.verif_buf_pos();
    vassert!(p0 == c.p - c.off, "C02 search does not move the record start");
    if g.lfs >= 1 {
        vassert!(seq == g.starts[1] - c.off, "C02 offset of the sequence line");
    }
    if g.lfs >= 2 {
        vassert!(sep == g.starts[2] - c.off, "C02 offset of the separator line");
    }
    if g.lfs >= 3 {
        vassert!(qual == g.starts[3] - c.off, "C02 offset of the quality line");
    }
    if g.lfs == 4 {
        vassert!(p1 == g.ends[3] - c.off, "C02 offset of the record end");
        match res {
            Ok(found) => {
                vassert!(found, "C02 a complete group inside the buffer is found");
                let rec = r.verif_current_record();
                check_record(&rec, f, &g, &v);
                vassert!(r.verif_incomplete_pos() == 0, "C02 no pending search after a complete group");
                // C05: the cursor advances by the exact extent of the record
                r.verif_increment_record();
                let (l, b) = r.verif_position();
                vassert!(b == byte0 + (g.next - c.p) as u64, "C05 byte offset advances by the record's extent");
                vassert!(l == c.line0 + 4, "C05 line number advances by four");
                vassert!(r.verif_buf_pos().0 == g.next - c.off, "C05 buffer offset and file position denote the same byte");
                cover!(true, "valid record found");
            }
            Err(e) => {
                check_error(&e, f, c.p, c.line0, &g, &v);
                vassert!(r.verif_state() == 3, "C02 a format error is terminal");
                cover!(matches!(e, fastq::Error::InvalidSep { .. }), "invalid separator");
                cover!(matches!(e, fastq::Error::UnequalLengths { .. }), "unequal lengths");
                std::mem::forget(e);
            }
        }
    } else {
        match res {
            Ok(found) => {
                vassert!(!found, "C02 an incomplete group is reported as incomplete");
                vassert!(r.verif_incomplete_pos() as usize == g.lfs + 1, "C02 the resume point is the first line whose end was not found");
            }
            Err(e) => {
                vassert!(false, "C02 no error before the group is complete");
                std::mem::forget(e);
            }
        }
        cover!(g.lfs == 2, "stopped in the separator line");
    }
    std::mem::forget(r);
}

/// K: end of input reached with an incomplete group (`search` then the end-of-input branch of
/// `resume_incomplete_search`, i.e. `check_end`): blank tail, truncation, last record without
/// terminator
pub fn k_check_end<N: Nd, const F: usize>(nd: &mut N) {
    let file: [u8; F] = any_file::<N, F>(nd);
    let c = any_cursor::<N, F>(nd, false);
    nd.note("format", b"fastq");
    nd.note("file", &file[c.p..c.n]);
    let f = &file[..c.n];
    let g = fq_group(f, c.p);
    nd.assume(g.lfs < 4);
    // state as `search` leaves it
    let st = FqState {
        pos0: c.p,
        pos1: 0,
        seq: if g.lfs >= 1 { g.starts[1] } else { 0 },
        sep: if g.lfs >= 2 { g.starts[2] } else { 0 },
        qual: if g.lfs >= 3 { g.starts[3] } else { 0 },
        inc: (g.lfs + 1) as u8,
        line: c.line0,
        byte: c.p as u64,
        state: 3,
    };
    let br = window::<F>(Src::plain(file, c.n), F + 1, 0);
    let mut r = fq_reader(br, &st);
    let res = r.verif_check_end((g.lfs + 1) as u8);
    let v = fq_verdict_g(f, c.p, &g);
    match res {
        Ok(true) => {
            let rec = r.verif_current_record();
            check_record(&rec, f, &g, &v);
            cover!(true, "last record without terminator accepted");
            cover!(rec.seq().len() == 2, "two-byte sequence at the end of input");
        }
        Ok(false) => {
            vassert!(v.end, "C02 end of input only when no further group (or a blank tail) remains");
            cover!(c.p < c.n, "blank tail accepted");
        }
        Err(e) => {
            check_error(&e, f, c.p, c.line0, &g, &v);
            cover!(matches!(e, fastq::Error::UnexpectedEnd { .. }), "truncated record");
            std::mem::forget(e);
        }
    }
    std::mem::forget(r);
}

pub fn k_search_f9<N: Nd>(nd: &mut N) {
    k_search::<N, 9>(nd)
}
pub fn k_search_f11<N: Nd>(nd: &mut N) {
    k_search::<N, 11>(nd)
}
pub fn k_check_end_f11<N: Nd>(nd: &mut N) {
    k_check_end::<N, 11>(nd)
}
pub fn k_check_end_f9<N: Nd>(nd: &mut N) {
    k_check_end::<N, 9>(nd)
}

harnesses! {
    /// @meta props=C02,C05,C17,C06,C04:t,C03:t tier=quick kind=K stage2=pub timeout=1500 mem=12 unwind=12 bounds="fastq::Reader::search (+increment_record) from a record start at every offset of every window (every file offset) of every file <= 9 bytes"
    #[kani::stub(std::string::String::from_utf8_lossy, crate::src::stub_lossy_empty)]
    fqk_search_f9 => k_search_f9;
    /// @meta props=C02,C17,C06,C12:t tier=quick kind=K stage2=pub timeout=1500 mem=12 unwind=12 bounds="fastq::Reader::check_end for every incomplete group at the end of every file <= 9 bytes (blank tail, truncation, last record without terminator)"
    #[kani::stub(std::string::String::from_utf8_lossy, crate::src::stub_lossy_empty)]
    fqk_check_end_f9 => k_check_end_f9;
    /// @meta props=C02:t,C05:t,C17:t,C06:t tier=thorough kind=K stage2=pub timeout=5000 mem=30 unwind=14 bounds="as fqk_search_f9 with files <= 11 bytes (a complete record plus the start of the next one)"
    #[kani::stub(std::string::String::from_utf8_lossy, crate::src::stub_lossy_empty)]
    fqk_search_f11 => k_search_f11;
    /// @meta props=C02:t,C17:t,C12:t,C06:t tier=thorough kind=K stage2=pub timeout=5000 mem=30 unwind=14 bounds="as fqk_check_end_f9 with files <= 11 bytes"
    #[kani::stub(std::string::String::from_utf8_lossy, crate::src::stub_lossy_empty)]
    fqk_check_end_f11 => k_check_end_f11;
}

/// K: `search_incomplete(k)` resumes a search whose first k-1 lines were already found and
/// never looks at them again: same result as a fresh search of the same window
pub fn k_search_incomplete<N: Nd, const F: usize>(nd: &mut N) {
    let file: [u8; F] = any_file::<N, F>(nd);
    let c = any_cursor::<N, F>(nd, false);
    let k = nd.usize_in(1, 4); // 1 Head .. 4 Qual: first line whose end is still unknown
    nd.note("format", b"fastq");
    nd.note("file", &file[c.p..c.n]);
    nd.note_num("resume_at_line", k as u64);
    let f = &file[..c.n];
    let g = fq_group(f, c.p);
    let v = fq_verdict_g(f, c.p, &g);
    // the lines before k were found earlier, so their terminators exist
    nd.assume(g.lfs + 1 >= k);
    let st = FqState {
        pos0: c.p,
        pos1: 0,
        seq: if k >= 2 { g.starts[1] } else { 0 },
        sep: if k >= 3 { g.starts[2] } else { 0 },
        qual: if k >= 4 { g.starts[3] } else { 0 },
        inc: k as u8,
        line: c.line0,
        byte: c.p as u64,
        state: 1,
    };
    let br = window::<F>(Src::plain(file, c.n), F + 1, 0);
    let mut r = fq_reader(br, &st);
    let res = r.verif_search_incomplete(k as u8);
    let (p0, p1, seq, sep, qual) = r.verif_buf_pos();
    vassert!(p0 == c.p, "C02 resumed search does not move the record start");
    if g.lfs >= 1 {
        vassert!(seq == g.starts[1], "C02 offset of the sequence line (resumed search)");
    }
    if g.lfs >= 2 {
        vassert!(sep == g.starts[2], "C02 offset of the separator line (resumed search)");
    }
    if g.lfs >= 3 {
        vassert!(qual == g.starts[3], "C02 offset of the quality line (resumed search)");
    }
    match res {
        Ok(None) => {
            vassert!(g.lfs == 4, "C02 resumed search completes only when four line ends exist");
            vassert!(p1 == g.ends[3], "C02 offset of the record end (resumed search)");
            let rec = r.verif_current_record();
            check_record(&rec, f, &g, &v);
            vassert!(r.verif_incomplete_pos() == 0, "C02 no pending search after a complete group");
            cover!(k == 3, "resumed in the separator line and completed");
        }
        Ok(Some(j)) => {
            vassert!(g.lfs < 4, "C02 a complete group inside the buffer is found by the resumed search");
            vassert!(j as usize == g.lfs + 1, "C02 the resume point is the first line whose end was not found");
            vassert!(r.verif_incomplete_pos() == j, "C02 the resume point is stored");
            cover!(j == 4 && k == 2, "resumed at the sequence line, stopped in the quality line");
        }
        Err(e) => {
            vassert!(g.lfs == 4, "C02 no error before the group is complete");
            check_error(&e, f, c.p, c.line0, &g, &v);
            vassert!(r.verif_state() == 3, "C02 a format error is terminal");
            std::mem::forget(e);
        }
    }
    std::mem::forget(r);
}

/// K: `make_room(k)` moves the unfinished record to the buffer start and shifts exactly the
/// offsets that were already found
pub fn k_make_room<N: Nd, const F: usize, const CAP: usize>(nd: &mut N) {
    let file: [u8; F] = any_file::<N, F>(nd);
    let off = nd.usize_in(0, F - CAP);
    let k = nd.usize_in(1, 4);
    let p0 = nd.usize_in(0, CAP);
    let seq = nd.usize_in(0, CAP);
    let sep = nd.usize_in(0, CAP);
    let qual = nd.usize_in(0, CAP);
    nd.assume(p0 < seq && seq < sep && sep < qual);
    let line0 = nd.u64();
    let byte0 = nd.u64();
    nd.assume(line0 < (1 << 40) && byte0 < (1 << 40));
    let st = FqState { pos0: p0, pos1: 0, seq, sep, qual, inc: k as u8, line: line0, byte: byte0, state: 1 };
    let br = window::<F>(Src::plain(file, F), CAP, off);
    let mut r = fq_reader(br, &st);
    r.verif_make_room(k as u8);
    let (n0, _n1, nseq, nsep, nqual) = r.verif_buf_pos();
    vassert!(n0 == 0, "C03 compaction moves the unfinished record to the buffer start");
    if k >= 2 {
        vassert!(nseq == seq - p0, "C03 compaction shifts the offset of the sequence line");
    }
    if k >= 3 {
        vassert!(nsep == sep - p0, "C03 compaction shifts the offset of the separator line");
    }
    if k >= 4 {
        vassert!(nqual == qual - p0, "C03 compaction shifts the offset of the quality line");
    }
    vassert!(r.verif_position() == (line0, byte0), "C03 compaction does not change the file position");
    let b = r.verif_buf_reader().buffer();
    vassert!(b.len() == CAP - p0, "C03 compaction keeps all bytes of the unfinished record");
    let mut ok = true;
    let mut i = 0;
    while i < CAP {
        if i < b.len() && b[i] != file[off + p0 + i] {
            ok = false;
        }
        i += 1;
    }
    vassert!(ok, "C03 compaction keeps the content of the unfinished record");
    vassert!(r.verif_buf_reader().capacity() == CAP, "C09 compaction does not change the capacity");
    cover!(p0 > 0 && k == 4, "shift with three found offsets");
    std::mem::forget(r);
}

/// K: `seek` — inside the window by offset arithmetic, outside by repositioning the source and
/// refilling; afterwards the reader is `Positioned` on the target
pub fn k_seek<N: Nd, const F: usize, const CAP: usize>(nd: &mut N) {
    let file: [u8; F] = any_file::<N, F>(nd);
    let n = nd.usize_in(0, F);
    let off = nd.usize_in(0, n);
    let p = nd.usize_in(off, n); // current cursor (file offset), inside the window or at its end
    nd.assume(p - off <= CAP);
    let target = nd.usize_in(0, n);
    let tline = nd.u64();
    let line0 = nd.u64();
    nd.assume(line0 < (1 << 40) && tline < (1 << 40));
    let state = nd.u8_in(1, 3);
    let inc = nd.u8_in(0, 4);
    nd.note("format", b"fastq");
    nd.note("file", &file[..n]);
    nd.note_num("cap", CAP as u64);
    nd.note_num("seek_target_byte", target as u64);
    let st = FqState { pos0: p - off, pos1: 0, seq: 0, sep: 0, qual: 0, inc, line: line0, byte: p as u64, state };
    // the source delivers the first read in one piece (it builds the window), later reads in symbolic chunks
    let mut src = Src::<F>::chunked(nd, file, n);
    src.chunk[0] = 0;
    let br = window::<F>(src, CAP, off);
    let blen = br.buffer().len();
    nd.assume(p - off <= blen);
    let mut r = fq_reader(br, &st);
    let res = r.seek(&fastq::Position::new(tline, target as u64));
    vassert!(res.is_ok(), "C05 seeking to a position inside the input succeeds");
    std::mem::forget(res);
    vassert!(r.verif_state() == 2, "C05 after a seek the reader is positioned on the target");
    vassert!(r.verif_incomplete_pos() == 0, "C05 a seek discards a pending partial search");
    vassert!(r.verif_position() == (tline, target as u64), "C05 the reported position is the seek target");
    let (n0, _, _, _, _) = r.verif_buf_pos();
    let inside = target >= off && target < off + blen;
    let b = r.verif_buf_reader().buffer();
    if inside {
        vassert!(n0 == target - off, "C05 in-buffer seek: the buffer offset denotes the target byte");
        vassert!(b.len() == blen, "C05 in-buffer seek keeps the buffer");
        cover!(target > p, "forward seek inside the buffer");
        cover!(target < p, "backward seek inside the buffer");
    } else {
        vassert!(n0 == 0, "C05 out-of-buffer seek: the target is at the buffer start");
        let want = if target + CAP < n { CAP } else { n - target };
        vassert!(b.len() == want, "C05 out-of-buffer seek refills the buffer from the target");
        let mut ok = true;
        let mut i = 0;
        while i < CAP {
            if i < b.len() && b[i] != file[target + i] {
                ok = false;
            }
            i += 1;
        }
        vassert!(ok, "C05 out-of-buffer seek: the buffer holds the input from the target on");
        cover!(target >= off + blen, "seek beyond the buffer");
        cover!(target < off, "seek before the buffer");
    }
    std::mem::forget(r);
}

pub fn k_search_incomplete_f9<N: Nd>(nd: &mut N) {
    k_search_incomplete::<N, 9>(nd)
}
pub fn k_make_room_f8_c6<N: Nd>(nd: &mut N) {
    k_make_room::<N, 8, 6>(nd)
}
pub fn k_seek_f8_c4<N: Nd>(nd: &mut N) {
    k_seek::<N, 8, 4>(nd)
}
pub fn k_seek_f10_c6<N: Nd>(nd: &mut N) {
    k_seek::<N, 10, 6>(nd)
}
pub fn k_search_incomplete_f11<N: Nd>(nd: &mut N) {
    k_search_incomplete::<N, 11>(nd)
}

harnesses! {
    @reg registry2;
    /// @meta props=C02,C03,C17,C06:t tier=quick kind=K stage2=pub timeout=1500 mem=12 unwind=12 bounds="fastq::Reader::search_incomplete resumed at each of the 4 lines, every record start in every file <= 9 bytes (window = file)"
    #[kani::stub(std::string::String::from_utf8_lossy, crate::src::stub_lossy_empty)]
    fqk_search_incomplete_f9 => k_search_incomplete_f9;
    /// @meta props=C03,C06,C09:t tier=quick kind=K timeout=1500 mem=12 unwind=10 bounds="fastq::Reader::make_room on a full buffer of capacity 6 over every 8-byte file, every resume point and every ordered quadruple of offsets"
    fqk_make_room_f8_c6 => k_make_room_f8_c6;
    /// @meta props=C05,C06,C04 tier=quick kind=K stage2=pub timeout=1500 mem=12 unwind=10 unwindset="seq_io::fill_buf:8" bounds="fastq::Reader::seek (source delivering symbolic chunks) from every state, every window (capacity 4, every file offset) of every file <= 8 bytes to every target byte 0..=n (in-buffer shortcut and real seek + refill)"
    fqk_seek_f8_c4 => k_seek_f8_c4;
    /// @meta props=C05:t,C04:t,C06:t tier=thorough kind=K stage2=pub timeout=5000 mem=30 unwind=12 unwindset="seq_io::fill_buf:8" bounds="as fqk_seek_f8_c4 with capacity 6 and files <= 10 bytes"
    fqk_seek_f10_c6 => k_seek_f10_c6;
    /// @meta props=C02:t,C03:t,C17:t tier=thorough kind=K stage2=pub timeout=5000 mem=30 unwind=14 bounds="as fqk_search_incomplete_f9 with files <= 11 bytes"
    #[kani::stub(std::string::String::from_utf8_lossy, crate::src::stub_lossy_empty)]
    fqk_search_incomplete_f11 => k_search_incomplete_f11;
}

/// K: `resume_incomplete_search` from an unfinished group in a completely filled buffer (one or
/// two refills): compaction or growth, refill, resumed search, end-of-input handling
pub fn k_resume<N: Nd, const F: usize, const CAP: usize>(nd: &mut N) {
    let file: [u8; F] = any_file::<N, F>(nd);
    let n = nd.usize_in(CAP, F);
    let p = nd.usize_in(0, CAP - 1);
    let make_room = nd.bool();
    nd.note("format", b"fastq");
    nd.note("file", &file[p..n]);
    nd.note_num("cap", CAP as u64);
    let f = &file[..n];
    let g = fq_group(f, p);
    let v = fq_verdict_g(f, p, &g);
    // the group is not complete inside the first window
    let lfs_in = count_lf(f, p, CAP);
    nd.assume(lfs_in < 4);
    let st = FqState {
        pos0: p,
        pos1: 0,
        seq: if lfs_in >= 1 { g.starts[1] } else { 0 },
        sep: if lfs_in >= 2 { g.starts[2] } else { 0 },
        qual: if lfs_in >= 3 { g.starts[3] } else { 0 },
        inc: 0,
        line: 1,
        byte: p as u64,
        state: 1,
    };
    let br = window::<F>(Src::plain(file, n), CAP, 0);
    let mut r = fq_reader(br, &st);
    let res = r.verif_resume_incomplete_search((lfs_in + 1) as u8, make_room);
    match res {
        Ok(true) => {
            let rec = r.verif_current_record();
            check_record(&rec, f, &g, &v);
            if g.lfs < 4 {
                vassert!(r.verif_state() == 3, "C20 after the last record (no terminator) the reader is finished");
            }
            if !make_room {
                vassert!(r.verif_buf_pos().0 == p, "C04 an exact-count batch never moves the buffer under the records it already holds");
            }
            cover!(g.lfs == 4, "record completed after a refill");
            cover!(g.lfs == 3, "last record without terminator after a refill");
        }
        Ok(false) => {
            vassert!(v.end, "C02 end of input only when no further group (or a blank tail) remains");
            vassert!(r.verif_state() == 3, "C20 once the end of input was reported the reader is finished");
            cover!(true, "blank tail after a refill");
        }
        Err(e) => {
            check_error(&e, f, p, 1, &g, &v);
            vassert!(r.verif_state() == 3, "C02 a format error is terminal");
            std::mem::forget(e);
        }
    }
    std::mem::forget(r);
}

pub fn k_resume_f6_c3<N: Nd>(nd: &mut N) {
    k_resume::<N, 6, 3>(nd)
}

// k_resume is not registered: the solver exhausts its memory limit on it.  The narrower instances
// below (branch fixed, short first read, failing read) are kept as pilots (tier=pilot, never part of
// a registered check): unlike their FASTA counterparts they still exhaust 20-44 GB in CBMC's
// post-processing, although the same steps called one after the other through the hooks
// (pilot.rs, q5-q7) take 40-190 s.

/// one concrete geometry: group start `p` in a full buffer of capacity CAP, file length `n`, first
/// read of the refill delivering `c1` bytes (0 = as much as fits); `grow`: the group is the first
/// one in the buffer (p == 0) and the policy grants 2*CAP, otherwise the policy refuses growth
fn resume_at<N: Nd, const F: usize, const CAP: usize>(nd: &mut N, file: &[u8; F], make_room: bool, p: usize, n: usize, c1: usize, grow: bool) {
    use crate::c09::RecPolicy;
    let f = &file[..n];
    let g = fq_group(f, p);
    let v = fq_verdict_g(f, p, &g);
    let lfs_in = count_lf(f, p, CAP);
    // the group is not complete inside the first window (that is why the search is resumed)
    nd.assume(lfs_in < 4);
    let st = FqState {
        pos0: p,
        pos1: 0,
        seq: if lfs_in >= 1 { g.starts[1] } else { 0 },
        sep: if lfs_in >= 2 { g.starts[2] } else { 0 },
        qual: if lfs_in >= 3 { g.starts[3] } else { 0 },
        inc: 0,
        line: 1,
        byte: p as u64,
        state: 1,
    };
    // the window is filled from a source of concrete length (the first read then delivers exactly
    // CAP bytes as a constant); the true length n (>= CAP) is set afterwards
    let mut src = Src::<F>::plain(*file, F);
    src.chunk[1] = c1;
    let mut br = window::<F>(src, CAP, 0);
    br.get_mut().len = n;
    let pol = RecPolicy { answer: if grow { Some(2 * CAP) } else { None }, asked: 0, n: 0 };
    let mut r = fastq::Reader::verif_from_parts(br, pol, fastq::VerifBufPos::new(st.pos0, st.pos1, st.seq, st.sep, st.qual), st.inc, st.line, st.byte, st.state);
    let res = r.verif_resume_incomplete_search((lfs_in + 1) as u8, make_room);
    let newcap = if grow { 2 * CAP } else { CAP };
    // the window after compaction / growth and a complete refill
    let wend = if p + newcap < n { p + newcap } else { n };
    let complete_in = g.lfs == 4 && g.ends[3] < wend;
    let eof_seen = n - p < newcap;
    let failed = match &res {
        Ok(true) => !(complete_in || eof_seen) || !v.record,
        Ok(false) => !(v.end && eof_seen && !complete_in),
        Err(_) => false,
    };
    if failed {
        nd.note_num("record_start", p as u64);
        nd.note_num("n", n as u64);
        nd.note_num("first_chunk", c1 as u64);
    }
    match res {
        Ok(true) => {
            vassert!(complete_in || eof_seen, "C02 a record is returned only when its four lines are in the buffer or the input ended");
            let rec = r.verif_current_record();
            check_record(&rec, f, &g, &v);
            let b = r.verif_buf_reader().buffer();
            vassert!(b.len() == wend - p, "C03 the refill reads until the buffer is full or the input ends");
            vassert!(r.verif_buf_reader().capacity() == newcap, "C09 the capacity is the one the policy granted");
            if g.lfs < 4 {
                vassert!(r.verif_state() == 3, "C20 after the last record (no terminator) the reader is finished");
            }
            cover!(g.lfs == 4 && c1 == 1, "record completed by a refill in several reads");
            cover!(g.lfs == 3, "last record without terminator after a refill");
        }
        Ok(false) => {
            vassert!(!complete_in, "C02 a complete group in the buffer is not skipped");
            vassert!(eof_seen, "C02 the end of the input is only reported once the source is exhausted");
            vassert!(v.end, "C02 end of input only when no further group (or a blank tail) remains");
            vassert!(r.verif_state() == 3, "C20 once the end of input was reported the reader is finished");
            cover!(true, "blank tail after a refill");
        }
        Err(fastq::Error::BufferLimit) => {
            vassert!(!grow, "C09 no buffer-limit error while the policy grants growth");
            vassert!(!complete_in && !eof_seen, "C02 no buffer-limit error when the group fits after compaction or the input ended");
            vassert!(r.verif_state() == 3, "C14 a refused growth is terminal");
            cover!(true, "growth refused");
        }
        Err(e) => {
            vassert!(complete_in || eof_seen, "C02 a format error is reported only for a group that is completely visible");
            check_error(&e, f, p, 1, &g, &v);
            vassert!(r.verif_state() == 3, "C02 a format error is terminal");
            std::mem::forget(e);
        }
    }
    std::mem::forget(r);
}

/// K: `resume_incomplete_search(make_room = true)` for an unfinished group that is not the first one
/// in a full buffer, policy refusing growth (compaction, complete refill after a short first read,
/// resumed search, end of input); group start, file length and first read size symbolic
pub fn k_resume_compact<N: Nd, const F: usize, const CAP: usize>(nd: &mut N) {
    let file: [u8; F] = any_file::<N, F>(nd);
    let n = nd.usize_in(CAP, F);
    let p = nd.usize_in(1, CAP - 1);
    let c1 = nd.usize_in(0, CAP - 1);
    nd.note("format", b"fastq");
    nd.note("file", &file[p..n]);
    nd.note_num("cap", CAP as u64);
    nd.note_num("first_chunk", c1 as u64);
    resume_at::<N, F, CAP>(nd, &file, true, p, n, c1, false);
}

/// K: `resume_incomplete_search` for an unfinished first group in a full buffer, the policy granting
/// 2*CAP (files shorter than the grown buffer): growth, complete refill, resumed search, end of input
pub fn k_resume_grow<N: Nd, const F: usize, const CAP: usize>(nd: &mut N) {
    let file: [u8; F] = any_file::<N, F>(nd);
    let n = nd.usize_in(CAP, F);
    let c1 = nd.usize_in(0, CAP);
    let make_room = nd.bool();
    nd.note("format", b"fastq");
    nd.note("file", &file[..n]);
    nd.note_num("cap", CAP as u64);
    nd.note_num("first_chunk", c1 as u64);
    resume_at::<N, F, CAP>(nd, &file, make_room, 0, n, c1, true);
}

/// K: `resume_incomplete_search(make_room = true)` with the first read of the refill failing with a
/// hard error of any kind: the error surfaces unchanged and is terminal (no later call can use the
/// coordinates that the compaction has moved)
pub fn k_resume_fault<N: Nd, const F: usize, const CAP: usize>(nd: &mut N) {
    use crate::c09::RecPolicy;
    let file: [u8; F] = any_file::<N, F>(nd);
    let n = nd.usize_in(CAP, F);
    let p = nd.usize_in(1, CAP - 1);
    let kind = nd.u8_in(0, 3);
    nd.note("format", b"fastq");
    nd.note("file", &file[p..n]);
    nd.note_num("cap", CAP as u64);
    let f = &file[..n];
    let g = fq_group(f, p);
    let lfs_in = count_lf(f, p, CAP);
    nd.assume(lfs_in < 4);
    let mut src = Src::<F>::plain(file, F);
    src.fault_at = 1;
    src.fault_kind = kind;
    let mut br = window::<F>(src, CAP, 0);
    br.get_mut().len = n;
    let pol = RecPolicy { answer: None, asked: 0, n: 0 };
    let bp = fastq::VerifBufPos::new(p, 0, if lfs_in >= 1 { g.starts[1] } else { 0 }, if lfs_in >= 2 { g.starts[2] } else { 0 }, if lfs_in >= 3 { g.starts[3] } else { 0 });
    let mut r = fastq::Reader::verif_from_parts(br, pol, bp, 0, 1, p as u64, 1);
    let res = r.verif_resume_incomplete_search((lfs_in + 1) as u8, true);
    match res {
        Ok(_) => {
            vassert!(false, "C14 an error of the source during a refill is never swallowed");
        }
        Err(fastq::Error::Io(e)) => {
            vassert!(e.kind() == kind_of(kind), "C14 the error kind of the source is preserved by the refill");
            vassert!(r.verif_state() == 3, "C14 a failed refill is terminal: later calls report the end of the input");
            vassert!(r.verif_state() == 3, "C06 a failed refill is terminal: later calls do not use the moved coordinates");
            cover!(true, "refill fails");
            std::mem::forget(e);
        }
        Err(e) => {
            vassert!(false, "C14 a source error is not turned into another error");
            std::mem::forget(e);
        }
    }
    std::mem::forget(r);
}
pub fn k_resume_fault_f7_c4<N: Nd>(nd: &mut N) {
    k_resume_fault::<N, 7, 4>(nd)
}
pub fn k_resume_compact_f7_c4<N: Nd>(nd: &mut N) {
    k_resume_compact::<N, 7, 4>(nd)
}
pub fn k_resume_grow_f7_c4<N: Nd>(nd: &mut N) {
    k_resume_grow::<N, 7, 4>(nd)
}

harnesses! {
    @reg registry3;
    /// @meta props=X00 tier=pilot kind=K stage2=pub timeout=1500 mem=16 unwind=10 unwindset="_resume_incomplete_search:2;seq_io::fill_buf:6" bounds="fastq::Reader::resume_incomplete_search(make_room) for an unfinished group at every start 1..3 of a full buffer of capacity 4 over every file <= 7 bytes, the first read of the refill failing with one of 4 error kinds"
    #[kani::stub(std::string::String::from_utf8_lossy, crate::src::stub_lossy_empty)]
    fqk_resume_fault_f7_c4 => k_resume_fault_f7_c4;
    /// @meta props=X00 tier=pilot kind=K stage2=pub timeout=2400 mem=20 unwind=10 unwindset="_resume_incomplete_search:2;seq_io::fill_buf:6" bounds="fastq::Reader::resume_incomplete_search(make_room) for an unfinished group at every start 1..3 of a full buffer of capacity 4 over every file <= 7 bytes, first refill read of 1..3 bytes or complete; policy refusing growth"
    #[kani::stub(std::string::String::from_utf8_lossy, crate::src::stub_lossy_empty)]
    fqk_resume_compact_f7_c4 => k_resume_compact_f7_c4;
    /// @meta props=X00 tier=pilot kind=K stage2=pub timeout=2400 mem=20 unwind=10 unwindset="_resume_incomplete_search:2;seq_io::fill_buf:7" bounds="fastq::Reader::resume_incomplete_search for an unfinished first group in a full buffer of capacity 4 over every file <= 7 bytes, first read after the growth of 1..4 bytes or complete, policy granting capacity 8"
    #[kani::stub(std::string::String::from_utf8_lossy, crate::src::stub_lossy_empty)]
    fqk_resume_grow_f7_c4 => k_resume_grow_f7_c4;
}

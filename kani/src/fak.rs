//! FASTA kernels: one private transition function of the real reader, once, from a symbolic
//! state built with the hook constructor over a window of a fully symbolic small file.
//! (C01, C03, C05, C06, C17 for FASTA; assertion labels name the property they decide.)
use crate::fqk::{any_file, window};
use crate::nd::Nd;
use crate::spec::*;
use crate::src::*;
use buffer_redux::BufReader;
use seq_io::fasta::{self, Record};
use seq_io::policy::BufPolicy;
use seq_io::policy::StdPolicy;

pub struct FaState {
    pub start: usize,
    pub search_pos: usize,
    pub line: u64,
    pub byte: u64,
    pub state: u8,
}

pub fn fa_reader<const F: usize>(br: BufReader<Src<F>>, s: &FaState, seq_pos: Vec<usize>) -> fasta::Reader<Src<F>, StdPolicy> {
    fasta::Reader::verif_from_parts(br, StdPolicy, s.start, seq_pos, s.line, s.byte, s.search_pos, s.state)
}

/// the reader's line-end list equals the reference list shifted by the window offset
fn ends_match(got: &[usize], exp: &FaRec, off: usize, upto: usize) -> bool {
    // compares the first `upto` entries
    if got.len() < upto {
        return false;
    }
    let mut ok = true;
    let mut i = 0;
    while i < FA_MAXL {
        if i < upto && got[i] + off != exp.ends[i] {
            ok = false;
        }
        i += 1;
    }
    ok
}

/// the line ends of `exp` that lie before `limit`, as the reader's line-end vector (capacity 8).
/// Built with a fixed number of pushes and one `set_len`: pushes under a symbolic condition make the
/// vector's length symbolic at every later push and exhaust the solver's memory (measured: > 14 GB vs 47 s)
pub fn ends_before(exp: &FaRec, limit: usize) -> Vec<usize> {
    let mut v = Vec::with_capacity(8);
    let mut k = 0;
    let mut i = 0;
    while i < FA_MAXL {
        v.push(exp.ends[i]);
        if i < exp.nends && exp.ends[i] < limit {
            k += 1;
        }
        i += 1;
    }
    unsafe { v.set_len(k) };
    v
}

/// as `ends_before`, for a caller that has fixed the number of line ends before `limit` to `k`
/// (`None` if the record has a different number): the vector's length is then a constant
pub fn ends_before_k<N: Nd>(nd: &mut N, exp: &FaRec, limit: usize, k: usize) -> Vec<usize> {
    let mut v = Vec::with_capacity(8);
    let mut cnt = 0;
    let mut i = 0;
    while i < FA_MAXL {
        if i < k {
            v.push(exp.ends[i]);
        }
        if i < exp.nends && exp.ends[i] < limit {
            cnt += 1;
        }
        i += 1;
    }
    nd.assume(cnt == k);
    v
}

pub fn ends_match_pub(got: &[usize], exp: &FaRec, off: usize, upto: usize) -> bool {
    ends_match(got, exp, off, upto)
}

/// K: `search` (= `_search` + end-of-input rule) from a header anywhere in a window that shows
/// the end of the input (capacity > bytes available)
pub fn k_search_eof<N: Nd, const F: usize>(nd: &mut N) {
    let file: [u8; F] = any_file::<N, F>(nd);
    let n = nd.usize_in(1, F);
    let off = nd.usize_in(0, n - 1);
    let h = nd.usize_in(off, n - 1);
    let line0 = nd.u64();
    nd.assume(line0 >= 1 && line0 < (1 << 40));
    nd.assume(file[h] == b'>');
    // after init the search starts one past '>', after a record or a seek at '>'
    let sp_plus = nd.bool();
    nd.note("format", b"fasta");
    nd.note("file", &file[h..n]);
    let f = &file[..n];
    let exp = fa_record(f, h);
    nd.assume(!exp.overflow);
    let br = window::<F>(Src::plain(file, n), F + 1, off);
    let st = FaState { start: h - off, search_pos: h - off + if sp_plus { 1 } else { 0 }, line: line0, byte: h as u64, state: 1 };
    let mut r = fa_reader(br, &st, Vec::with_capacity(8));
    let res = r.verif_search();
    match res {
        Ok(found) => {
            vassert!(found, "C01 with the end of the input in view every record is complete");
            vassert!(r.verif_start() == h - off, "C01 search does not move the record start");
            let sp = r.verif_seq_pos();
            vassert!(sp.len() == exp.nends, "C01 number of line ends of the record");
            vassert!(ends_match(sp, &exp, off, exp.nends), "C01 line ends of the record are exactly the line terminators up to the next header (or the end of input)");
            if exp.complete {
                vassert!(r.verif_search_pos() + off == exp.next, "C01 the next record starts at the first '>' that follows a line terminator");
                vassert!(r.verif_state() != 4, "C01 not finished while a further header exists");
            } else {
                vassert!(r.verif_state() == 4, "C01 finished after the last record");
                vassert!(r.verif_search_pos() + off == exp.ends[exp.nends - 1], "C01 the last record extends to the end of the input");
            }
            // C05: advancing the cursor by the record's extent gives the next record's coordinates
            r.verif_increment_record();
            if exp.complete {
                let (l, b) = r.verif_position();
                vassert!(b == exp.next as u64, "C05 byte offset advances by the record's extent");
                vassert!(l == line0 + exp.nends as u64, "C05 line number advances by the record's lines");
                vassert!(r.verif_start() + off == exp.next, "C05 buffer offset and file position denote the same byte");
            }
            cover!(exp.complete && exp.nends == 2, "complete record with one sequence line");
            cover!(!exp.complete && f[n - 1] != LF, "last record without final terminator");
            cover!(!exp.complete && f[n - 1] == LF && exp.nends == 1, "header only, terminated");
        }
        Err(e) => {
            vassert!(false, "C01 search does not fail");
            std::mem::forget(e);
        }
    }
    std::mem::forget(r);
}

/// K: `search` when the buffer is completely filled (more input may follow): a complete record
/// is found exactly when a line terminator followed by '>' lies inside the window, otherwise the
/// search is left resumable (Incomplete) with the last byte re-searched if it is a terminator
pub fn k_search_full<N: Nd, const F: usize, const CAP: usize>(nd: &mut N) {
    let file: [u8; F] = any_file::<N, F>(nd);
    // window = file[off .. off+CAP], completely filled
    let off = nd.usize_in(0, F - CAP);
    let h = nd.usize_in(off, off + CAP - 1);
    let line0 = nd.u64();
    nd.assume(line0 >= 1 && line0 < (1 << 40));
    nd.assume(file[h] == b'>');
    let sp_plus = nd.bool();
    nd.note("format", b"fasta");
    nd.note("file", &file[h..]);
    nd.note_num("cap", CAP as u64);
    let wend = off + CAP; // file offset one past the window
    let f = &file[..];
    let exp = fa_record(f, h);
    nd.assume(!exp.overflow);
    let br = window::<F>(Src::plain(file, F), CAP, off);
    let st = FaState { start: h - off, search_pos: h - off + if sp_plus { 1 } else { 0 }, line: line0, byte: h as u64, state: 1 };
    let mut r = fa_reader(br, &st, Vec::with_capacity(8));
    let res = r.verif_search();
    // the record is complete inside the window iff its next header lies inside the window
    let inside = exp.complete && exp.next < wend;
    match res {
        Ok(found) => {
            vassert!(found == inside, "C01 a record is complete exactly when the next header is inside the buffer");
            let sp = r.verif_seq_pos();
            if inside {
                vassert!(sp.len() == exp.nends, "C01 number of line ends of the record");
                vassert!(ends_match(sp, &exp, off, exp.nends), "C01 line ends of the record are exactly the line terminators up to the next header (or the end of input)");
                vassert!(r.verif_search_pos() + off == exp.next, "C01 the next record starts at the first '>' that follows a line terminator");
            } else {
                vassert!(r.verif_state() == 2, "C01 an unfinished record leaves the search resumable");
                // every terminator strictly before the last byte of the window is recorded
                let last_is_lf = f[wend - 1] == LF && wend - 1 > h;
                let nl = count_lf(f, h, wend - 1);
                vassert!(sp.len() == nl, "C01 resumable search keeps every line end seen so far (except a terminator in the last byte)");
                vassert!(ends_match(sp, &exp, off, nl), "C01 resumable search keeps the true line ends");
                vassert!(r.verif_search_pos() == if last_is_lf { CAP - 1 } else { CAP }, "C01 a terminator in the last byte of the buffer is searched again after the refill");
                cover!(last_is_lf, "terminator in the last byte");
            }
            cover!(inside, "complete record inside a full buffer");
        }
        Err(e) => {
            vassert!(false, "C01 search does not fail");
            std::mem::forget(e);
        }
    }
    std::mem::forget(r);
}

/// K: `make_room` keeps the content relative to the record and shifts every stored offset
pub fn k_make_room<N: Nd, const F: usize, const CAP: usize>(nd: &mut N) {
    let file: [u8; F] = any_file::<N, F>(nd);
    let off = nd.usize_in(0, F - CAP);
    let start = nd.usize_in(0, CAP - 1);
    let sp = nd.usize_in(start, CAP);
    // up to two recorded line ends inside [start, sp)
    let nq = nd.usize_in(0, 2);
    let q0 = nd.usize_in(start, CAP);
    let q1 = nd.usize_in(start, CAP);
    nd.assume(q0 < q1 && q1 < CAP);
    let mut v = Vec::with_capacity(8);
    if nq >= 1 {
        v.push(q0);
    }
    if nq >= 2 {
        v.push(q1);
    }
    let line0 = nd.u64();
    let byte0 = nd.u64();
    nd.assume(line0 < (1 << 40) && byte0 < (1 << 40));
    let br = window::<F>(Src::plain(file, F), CAP, off);
    let st = FaState { start, search_pos: sp, line: line0, byte: byte0, state: 2 };
    let mut r = fa_reader(br, &st, v);
    r.verif_make_room();
    vassert!(r.verif_start() == 0, "C03 compaction moves the unfinished record to the buffer start");
    vassert!(r.verif_search_pos() == sp - start, "C03 compaction shifts the search position");
    let s2 = r.verif_seq_pos();
    vassert!(s2.len() == nq, "C03 compaction keeps the recorded line ends");
    if nq >= 1 {
        vassert!(s2[0] == q0 - start, "C03 compaction shifts every recorded line end");
    }
    if nq >= 2 {
        vassert!(s2[1] == q1 - start, "C03 compaction shifts every recorded line end");
    }
    vassert!(r.verif_position() == (line0, byte0), "C03 compaction does not change the file position");
    let b = r.verif_buf_reader().buffer();
    vassert!(b.len() == CAP - start, "C03 compaction keeps all bytes of the unfinished record");
    let mut ok = true;
    let mut i = 0;
    while i < CAP {
        if i < b.len() && b[i] != file[off + start + i] {
            ok = false;
        }
        i += 1;
    }
    vassert!(ok, "C03 compaction keeps the content of the unfinished record");
    vassert!(r.verif_buf_reader().capacity() == CAP, "C09 compaction does not change the capacity");
    cover!(start > 0 && nq == 2, "shift with two line ends");
    std::mem::forget(r);
}

pub fn k_search_eof_f8<N: Nd>(nd: &mut N) {
    k_search_eof::<N, 8>(nd)
}
pub fn k_search_eof_f10<N: Nd>(nd: &mut N) {
    k_search_eof::<N, 10>(nd)
}
pub fn k_search_full_f10_c7<N: Nd>(nd: &mut N) {
    k_search_full::<N, 10, 7>(nd)
}
pub fn k_search_full_f8_c5<N: Nd>(nd: &mut N) {
    k_search_full::<N, 8, 5>(nd)
}
pub fn k_make_room_f8_c5<N: Nd>(nd: &mut N) {
    k_make_room::<N, 8, 5>(nd)
}

harnesses! {
    /// @meta props=C01,C05,C06,C04:t,C03:t tier=quick kind=K stage2=pub timeout=1500 mem=12 unwind=11 bounds="fasta::Reader::search (+increment_record) from a header at every offset of every window (every file offset) of every file <= 8 bytes with the end of input in view; <= 6 line ends per record"
    fak_search_eof_f8 => k_search_eof_f8;
    /// @meta props=C01,C06:t,C03:t tier=quick kind=K stage2=pub timeout=1500 mem=12 unwind=11 bounds="fasta::Reader::search on a completely filled buffer of capacity 5 at every offset of every 8-byte file: complete record vs resumable state, look-ahead byte"
    fak_search_full_f8_c5 => k_search_full_f8_c5;
    /// @meta props=C03,C06,C09:t tier=quick kind=K timeout=1500 mem=12 unwind=11 bounds="fasta::Reader::make_room on a full buffer of capacity 5 over every 8-byte file, every record start, search position and <= 2 recorded line ends"
    fak_make_room_f8_c5 => k_make_room_f8_c5;
    /// @meta props=C01:t,C05:t,C06:t tier=thorough kind=K stage2=pub timeout=5000 mem=30 unwind=13 bounds="as fak_search_eof_f8 with files <= 10 bytes"
    fak_search_eof_f10 => k_search_eof_f10;
    /// @meta props=C01:t,C06:t tier=thorough kind=K stage2=pub timeout=5000 mem=30 unwind=13 bounds="as fak_search_full_f8_c5 with capacity 7 over 10-byte files"
    fak_search_full_f10_c7 => k_search_full_f10_c7;
}

/// K: `init` (= `first_byte` + '>' validation) from `New`: skips leading blank lines across
/// refills; reports the first non-blank line
pub fn k_init<N: Nd, const F: usize, const CAP: usize, const FIXLEN: bool, const BLANK: usize>(nd: &mut N) {
    let file: [u8; F] = any_file::<N, F>(nd);
    // BLANK: the first BLANK bytes are line terminator bytes (instances that make the blank prefix
    // span several buffer fills without paying for every file of that length)
    let mut bi = 0;
    while bi < BLANK {
        nd.assume(file[bi] == LF || file[bi] == b'\r');
        bi += 1;
    }
    // FIXLEN: the file has exactly F bytes (one instance per length keeps the refill loop concrete)
    let n = if FIXLEN { F } else { nd.usize_in(0, F) };
    nd.note("format", b"fasta");
    nd.note("file", &file[..n]);
    nd.note_num("cap", CAP as u64);
    let f = &file[..n];
    let br = BufReader::with_capacity(CAP, Src::<F>::plain(file, n));
    let st = FaState { start: 0, search_pos: 0, line: 0, byte: 0, state: 0 };
    let mut r = fa_reader(br, &st, Vec::with_capacity(8));
    let res = r.verif_init();
    match fa_first(f) {
        FaFirst::Empty => {
            match res {
                Ok(found) => {
                    vassert!(!found, "C01 input of blank lines only has no record");
                    vassert!(r.verif_state() == 4, "C01 finished after blank-only input");
                }
                Err(e) => {
                    vassert!(false, "C01 no error for blank-only input");
                    std::mem::forget(e);
                }
            }
            cover!(n >= CAP + 1, "blank lines longer than the buffer");
        }
        FaFirst::Header { pos, line } => {
            match res {
                Ok(found) => {
                    vassert!(found, "C01 the first non-blank line starting with '>' starts the first record");
                    // file offset of the buffer start = bytes the source delivered - bytes buffered
                    let off = r.verif_buf_reader().get_ref().pos - r.verif_buf_reader().buffer().len();
                    vassert!(r.verif_start() + off == pos, "C01 the first record starts at the first non-blank line");
                    vassert!(r.verif_buf_reader().buffer()[r.verif_start()] == b'>', "C01 the record start is a '>'");
                    vassert!(r.verif_search_pos() == r.verif_start() + 1, "C01 the search starts after '>'");
                    let (l, b) = r.verif_position();
                    vassert!(b == pos as u64, "C05 byte offset of the first record");
                    vassert!(l == line, "C05 line number of the first record");
                    cover!(pos >= CAP, "first header beyond the first buffer fill");
                    cover!(pos > 0 && (pos < CAP || BLANK >= CAP), "first header after blank lines (inside the first fill unless the instance fixes a longer blank prefix)");
                }
                Err(e) => {
                    vassert!(false, "C01 no error when the first non-blank line starts with '>'");
                    std::mem::forget(e);
                }
            }
        }
        FaFirst::Invalid { line, found } => {
            match res {
                Ok(_) => {
                    vassert!(false, "C01 a first non-blank line not starting with '>' is an invalid start");
                }
                Err(fasta::Error::InvalidStart { line: l, found: fd }) => {
                    vassert!(fd == found, "C17 invalid start reports the byte found");
                    vassert!(l as u64 == line, "C17 invalid start reports the true line of the first non-blank line");
                    vassert!(r.verif_state() == 4, "C01 the invalid-start error is terminal");
                    cover!(line >= 3, "invalid start after at least two blank lines");
                }
                Err(e) => {
                    vassert!(false, "C01 only an invalid-start error is possible here");
                    std::mem::forget(e);
                }
            }
        }
    }
    std::mem::forget(r);
}

pub fn k_init_f4_c3<N: Nd>(nd: &mut N) {
    k_init::<N, 4, 3, true, 0>(nd)
}
pub fn k_init_f7_c3_b6<N: Nd>(nd: &mut N) {
    k_init::<N, 7, 3, true, 6>(nd)
}
pub fn k_init_f5_c3<N: Nd>(nd: &mut N) {
    k_init::<N, 5, 3, false, 0>(nd)
}
pub fn k_init_f5_c4<N: Nd>(nd: &mut N) {
    k_init::<N, 5, 4, false, 0>(nd)
}

harnesses! {
    @reg registry2;
    /// @meta props=C01,C17,C06,C05,C03 tier=quick kind=K stage2=pub timeout=3000 mem=28 unwind=6 unwindset="first_byte:6;seq_io::fill_buf:4" bounds="fasta::Reader::init from New on every file of exactly 4 bytes at capacity 3 (blank prefix crossing one refill), whole reads"
    fak_init_f4_c3 => k_init_f4_c3;
    /// @meta props=C17,C05,C03,C01:t,C06:t tier=quick kind=K stage2=pub timeout=3000 mem=20 unwind=8 unwindset="first_byte:6;seq_io::fill_buf:4" bounds="fasta::Reader::init from New at capacity 3 on every 7-byte file that starts with 6 line-terminator bytes (any mixture of LF and CR): blank prefix spanning three or more buffer fills, whole reads"
    fak_init_f7_c3_b6 => k_init_f7_c3_b6;
    /// @meta props=C01,C05,C17,C03,C06 tier=thorough kind=K stage2=pub timeout=3000 mem=16 unwind=8 unwindset="first_byte:7;seq_io::fill_buf:4" bounds="fasta::Reader::init from New on every file <= 5 bytes at capacity 3 (blank prefix crossing up to 2 refills), whole reads"
    fak_init_f5_c3 => k_init_f5_c3;
    /// @meta props=C01,C05,C17,C03,C06 tier=thorough kind=K stage2=pub timeout=1500 mem=12 unwind=8 unwindset="first_byte:6;seq_io::fill_buf:4" bounds="fasta::Reader::init from New on every file <= 5 bytes at capacity 4, whole reads"
    fak_init_f5_c4 => k_init_f5_c4;
}

/// K: `seek` — inside the window by offset arithmetic, outside by repositioning the source and
/// refilling; afterwards the reader is `Positioned` on the target with an empty line-end list
pub fn k_seek<N: Nd, const F: usize, const CAP: usize>(nd: &mut N) {
    let file: [u8; F] = any_file::<N, F>(nd);
    let n = nd.usize_in(0, F);
    let off = nd.usize_in(0, n);
    let p = nd.usize_in(off, n);
    nd.assume(p - off <= CAP);
    let target = nd.usize_in(0, n);
    let tline = nd.u64();
    let line0 = nd.u64();
    nd.assume(line0 < (1 << 40) && tline < (1 << 40));
    let state = nd.u8_in(1, 4);
    let sp = nd.usize_in(0, CAP);
    nd.note("format", b"fasta");
    nd.note("file", &file[..n]);
    nd.note_num("cap", CAP as u64);
    nd.note_num("seek_target_byte", target as u64);
    let mut v = Vec::with_capacity(8);
    if nd.bool() {
        v.push(nd.usize_in(0, CAP));
    }
    let st = FaState { start: p - off, search_pos: sp, line: line0, byte: p as u64, state };
    let mut src = Src::<F>::chunked(nd, file, n);
    src.chunk[0] = 0;
    let br = window::<F>(src, CAP, off);
    let blen = br.buffer().len();
    nd.assume(p - off <= blen && sp <= blen);
    let mut r = fa_reader(br, &st, v);
    let res = r.seek(&fasta::Position::new(tline, target as u64));
    vassert!(res.is_ok(), "C05 seeking to a position inside the input succeeds");
    std::mem::forget(res);
    vassert!(r.verif_state() == 3, "C05 after a seek the reader is positioned on the target");
    vassert!(r.verif_seq_pos().is_empty(), "C05 a seek discards the line ends of the previous record");
    vassert!(r.verif_position() == (tline, target as u64), "C05 the reported position is the seek target");
    let inside = target >= off && target < off + blen;
    let b = r.verif_buf_reader().buffer();
    if inside {
        vassert!(r.verif_start() == target - off, "C05 in-buffer seek: the buffer offset denotes the target byte");
        vassert!(r.verif_search_pos() == target - off, "C05 in-buffer seek: the search restarts at the target");
        vassert!(b.len() == blen, "C05 in-buffer seek keeps the buffer");
        cover!(target > p, "forward seek inside the buffer");
        cover!(target < p, "backward seek inside the buffer");
    } else {
        vassert!(r.verif_start() == 0 && r.verif_search_pos() == 0, "C05 out-of-buffer seek: the target is at the buffer start");
        let want = if target + CAP < n { CAP } else { n - target };
        vassert!(b.len() == want, "C05 out-of-buffer seek refills the buffer from the target");
        let mut ok = true;
        let mut i = 0;
        while i < CAP {
            if i < b.len() && b[i] != file[target + i] {
                ok = false;
            }
            i += 1;
        }
        vassert!(ok, "C05 out-of-buffer seek: the buffer holds the input from the target on");
        cover!(target >= off + blen, "seek beyond the buffer");
        cover!(target < off, "seek before the buffer");
    }
    std::mem::forget(r);
}

pub fn k_seek_f8_c4<N: Nd>(nd: &mut N) {
    k_seek::<N, 8, 4>(nd)
}

harnesses! {
    @reg registry3;
    /// @meta props=C05,C04,C06 tier=quick kind=K stage2=pub timeout=1500 mem=12 unwind=10 unwindset="seq_io::fill_buf:8" bounds="fasta::Reader::seek (source delivering symbolic chunks) from every state, every window (capacity 4, every file offset) of every file <= 8 bytes to every target byte 0..=n (in-buffer shortcut and real seek + refill)"
    fak_seek_f8_c4 => k_seek_f8_c4;
}

/// K: `resume_incomplete_search` from an unfinished record in a completely filled buffer:
/// compaction is preferred over growth, growth happens only when the record does not fit, an
/// exact-count batch (make_room == false) never moves the buffer, and the record found afterwards
/// is the reference record
pub fn k_resume<N: Nd, const F: usize, const CAP: usize>(nd: &mut N) {
    use crate::c09::RecPolicy;
    let file: [u8; F] = any_file::<N, F>(nd);
    let n = nd.usize_in(CAP, F);
    let h = nd.usize_in(0, CAP - 1);
    let make_room = nd.bool();
    nd.assume(file[h] == b'>');
    nd.note("format", b"fasta");
    nd.note("file", &file[h..n]);
    nd.note_num("cap", CAP as u64);
    let f = &file[..n];
    let exp = fa_record(f, h);
    nd.assume(!exp.overflow);
    // the record is not complete inside the first window (that is why the search is resumed)
    nd.assume(!(exp.complete && exp.next < CAP));
    // state as `search` leaves it on the full window file[0..CAP]
    let last_is_lf = f[CAP - 1] == LF && CAP - 1 > h;
    let v = ends_before(&exp, CAP - 1);
    let st = FaState { start: h, search_pos: if last_is_lf { CAP - 1 } else { CAP }, line: 1, byte: h as u64, state: 2 };
    let br = window::<F>(Src::plain(file, n), CAP, 0);
    let pol = RecPolicy { answer: Some(2 * CAP), asked: 0, n: 0 };
    let mut r = fasta::Reader::verif_from_parts(br, pol, st.start, v, st.line, st.byte, st.search_pos, st.state);
    let res = r.verif_resume_incomplete_search(make_room);
    // bytes needed to see the whole record: up to and including the next header byte, or one more
    // than the rest of the input (the end of input is recognised by a buffer that is not full)
    let needed = if exp.complete { exp.next - h + 1 } else { n - h + 1 };
    let asked = r.policy().n;
    match res {
        Ok(found) => {
            vassert!(found, "C01 after a refill the record is complete");
            if make_room && needed <= CAP {
                vassert!(asked == 0, "C09 the policy is not consulted when the record fits after compaction");
                vassert!(r.verif_buf_reader().capacity() == CAP, "C09 no growth when the record fits");
            }
            if asked > 0 {
                vassert!(r.policy().asked == CAP, "C09 the policy is asked with the current capacity");
            }
            if !make_room {
                vassert!(r.verif_start() == h, "C04 an exact-count batch never moves the buffer under the records it already holds");
                let b = r.verif_buf_reader().buffer();
                let mut ok = true;
                let mut j = 0;
                while j < CAP {
                    if b[j] != file[j] {
                        ok = false;
                    }
                    j += 1;
                }
                vassert!(ok, "C04 an exact-count batch keeps the buffered bytes in place");
            }
            let off = h - r.verif_start();
            let sp = r.verif_seq_pos();
            vassert!(sp.len() == exp.nends && ends_match(sp, &exp, off, exp.nends), "C01 the record found after the refill has exactly the reference line ends");
            cover!(make_room && h > 0 && asked == 0, "compaction sufficed");
            cover!(make_room && asked > 0, "growth after compaction");
            cover!(!make_room, "exact-count batch");
        }
        Err(e) => {
            vassert!(false, "C01 no error with a permitting policy");
            std::mem::forget(e);
        }
    }
    std::mem::forget(r);
}

pub fn k_resume_f8_c4<N: Nd>(nd: &mut N) {
    k_resume::<N, 8, 4>(nd)
}

// k_resume is not registered: the solver exhausts 24 GB on it (symbolic choice between compaction and
// growth, realloc of the real buffer-redux inside the loop).  The two instances below fix the branch.

/// one concrete geometry of the compaction path: record start `h` in a full buffer of capacity CAP,
/// file length `n`, first refill read delivering `c1` bytes (0 = as much as fits); bytes symbolic
fn resume_compact_at<N: Nd, const F: usize, const CAP: usize>(nd: &mut N, file: &[u8; F], h: usize, n: usize, c1: usize, k: usize) {
    use crate::c09::RecPolicy;
    nd.assume(file[h] == b'>');
    let f = &file[..n];
    let exp = fa_record(f, h);
    nd.assume(!exp.overflow);
    // the record is not complete inside the first window (that is why the search is resumed)
    nd.assume(!(exp.complete && exp.next < CAP));
    let last_is_lf = f[CAP - 1] == LF;
    let v = ends_before_k(nd, &exp, CAP - 1, k);
    let st = FaState { start: h, search_pos: if last_is_lf { CAP - 1 } else { CAP }, line: 1, byte: h as u64, state: 2 };
    let mut src = Src::<F>::plain(*file, n);
    src.chunk[1] = c1;
    let br = window::<F>(src, CAP, 0);
    let pol = RecPolicy { answer: None, asked: 0, n: 0 };
    let mut r = fasta::Reader::verif_from_parts(br, pol, st.start, v, st.line, st.byte, st.search_pos, st.state);
    let res = r.verif_resume_incomplete_search(true);
    let needed = if exp.complete { exp.next - h + 1 } else { n - h + 1 };
    match res {
        Ok(found) => {
            if !(found && needed <= CAP) {
                nd.note_num("h", h as u64);
                nd.note_num("n", n as u64);
                nd.note_num("first_chunk", c1 as u64);
            }
            vassert!(found, "C01 after a refill the record is complete");
            vassert!(needed <= CAP, "C09 a record that does not fit is not returned without growth");
            vassert!(r.policy().n == 0, "C09 the policy is not consulted when the record fits after compaction");
            vassert!(r.verif_buf_reader().capacity() == CAP, "C09 no growth when the record fits");
            vassert!(r.verif_start() == 0, "C01 compaction moves the record to the buffer start");
            let sp = r.verif_seq_pos();
            vassert!(sp.len() == exp.nends && ends_match(sp, &exp, h, exp.nends), "C01 the record found after the refill has exactly the reference line ends");
            if exp.complete {
                vassert!(r.verif_search_pos() + h == exp.next, "C01 the next record starts at the first '>' that follows a line terminator");
                vassert!(r.verif_state() != 4, "C01 not finished while a further header exists");
            } else {
                vassert!(r.verif_state() == 4, "C01 finished after the last record");
            }
            let b = r.verif_buf_reader().buffer();
            let want = if n - h < CAP { n - h } else { CAP };
            vassert!(b.len() == want, "C03 the refill reads until the buffer is full or the input ends");
            let mut ok = true;
            let mut j = 0;
            while j < CAP {
                if j < b.len() && b[j] != file[h + j] {
                    ok = false;
                }
                j += 1;
            }
            vassert!(ok, "C03 after compaction and refill the buffer holds the input from the record start on");
            cover!(exp.complete && c1 == 1, "record completed by a refill in several reads");
            cover!(!exp.complete, "last record completed by the end of the input");
        }
        Err(e) => {
            vassert!(needed > CAP, "C01 no error when the record fits after compaction");
            vassert!(matches!(e, fasta::Error::BufferLimit), "C09 only the refused growth is reported");
            vassert!(r.verif_state() == 4, "C14 a refused growth is terminal");
            cover!(true, "growth refused");
            std::mem::forget(e);
        }
    }
    std::mem::forget(r);
}

/// one concrete geometry of the growth path: unfinished first record (start 0), file length `n`,
/// first read after the growth delivering `c1` bytes (0 = as much as fits)
fn resume_grow_at<N: Nd, const F: usize, const CAP: usize>(nd: &mut N, file: &[u8; F], make_room: bool, n: usize, c1: usize, k: usize) {
    use crate::c09::RecPolicy;
    nd.assume(file[0] == b'>');
    let f = &file[..n];
    let exp = fa_record(f, 0);
    nd.assume(!exp.overflow);
    nd.assume(!(exp.complete && exp.next < CAP));
    let last_is_lf = f[CAP - 1] == LF;
    let v = ends_before_k(nd, &exp, CAP - 1, k);
    let st = FaState { start: 0, search_pos: if last_is_lf { CAP - 1 } else { CAP }, line: 1, byte: 0, state: 2 };
    let mut src = Src::<F>::plain(*file, n);
    src.chunk[1] = c1;
    let br = window::<F>(src, CAP, 0);
    let pol = RecPolicy { answer: Some(2 * CAP), asked: 0, n: 0 };
    let mut r = fasta::Reader::verif_from_parts(br, pol, st.start, v, st.line, st.byte, st.search_pos, st.state);
    let res = r.verif_resume_incomplete_search(make_room);
    match res {
        Ok(found) => {
            if !found {
                nd.note_num("n", n as u64);
                nd.note_num("first_chunk", c1 as u64);
            }
            vassert!(found, "C01 after a refill the record is complete");
            vassert!(r.policy().n == 1 && r.policy().asked == CAP, "C09 the policy is asked once, with the current capacity");
            vassert!(r.verif_buf_reader().capacity() == 2 * CAP, "C09 the size returned by the policy is adopted");
            vassert!(r.verif_start() == 0, "C04 growth does not move the record");
            let sp = r.verif_seq_pos();
            vassert!(sp.len() == exp.nends && ends_match(sp, &exp, 0, exp.nends), "C01 the record found after the refill has exactly the reference line ends");
            if exp.complete {
                vassert!(r.verif_search_pos() == exp.next, "C01 the next record starts at the first '>' that follows a line terminator");
                vassert!(r.verif_state() != 4, "C01 not finished while a further header exists");
            } else {
                vassert!(r.verif_state() == 4, "C01 finished after the last record");
            }
            let b = r.verif_buf_reader().buffer();
            vassert!(b.len() == n, "C03 the refill after growth reads until the buffer is full or the input ends");
            let mut ok = true;
            let mut j = 0;
            while j < F {
                if j < b.len() && b[j] != file[j] {
                    ok = false;
                }
                j += 1;
            }
            vassert!(ok, "C03 growth keeps the buffered bytes and the refill appends the input that follows");
            cover!(exp.complete && c1 == 1, "record completed after growth and a refill in several reads");
            cover!(!exp.complete, "last record completed by the end of the input after growth");
        }
        Err(e) => {
            vassert!(false, "C01 no error with a permitting policy");
            std::mem::forget(e);
        }
    }
    std::mem::forget(r);
}

/// K: `resume_incomplete_search(make_room = true)` for an unfinished record that is not the first one
/// in a completely filled buffer, the source delivering a short first read, the policy refusing
/// growth: compaction + complete refill + search find exactly the reference record whenever it
/// fits; the refused growth is a terminal BufferLimit error otherwise.  K = number of line ends the
/// first search had already recorded (one instance per value keeps the vector's length concrete).
pub fn k_resume_compact<N: Nd, const F: usize, const CAP: usize, const K: usize>(nd: &mut N) {
    let file: [u8; F] = any_file::<N, F>(nd);
    let n = nd.usize_in(CAP, F);
    let h = nd.usize_in(1, CAP - 1);
    let c1 = nd.usize_in(0, CAP - 1);
    nd.note("format", b"fasta");
    nd.note("file", &file[h..n]);
    nd.note_num("cap", CAP as u64);
    nd.note_num("first_chunk", c1 as u64);
    resume_compact_at::<N, F, CAP>(nd, &file, h, n, c1, K);
}

/// K: `resume_incomplete_search` (either make_room value) for an unfinished first record in a
/// completely filled buffer, the policy granting the capacity 2*CAP: growth + complete refill +
/// search find exactly the reference record (files shorter than the grown buffer, so that one
/// growth always suffices)
pub fn k_resume_grow<N: Nd, const F: usize, const CAP: usize, const K: usize>(nd: &mut N) {
    let file: [u8; F] = any_file::<N, F>(nd);
    let n = nd.usize_in(CAP, F);
    let c1 = nd.usize_in(0, CAP);
    let make_room = nd.bool();
    nd.note("format", b"fasta");
    nd.note("file", &file[..n]);
    nd.note_num("cap", CAP as u64);
    nd.note_num("first_chunk", c1 as u64);
    resume_grow_at::<N, F, CAP>(nd, &file, make_room, n, c1, K);
}

/// K: as `k_resume_compact`, the first read of the refill failing with a hard error of any kind:
/// the error surfaces unchanged and is terminal (no call afterwards can use the moved coordinates)
pub fn k_resume_fault<N: Nd, const F: usize, const CAP: usize, const K: usize>(nd: &mut N) {
    use crate::c09::RecPolicy;
    let file: [u8; F] = any_file::<N, F>(nd);
    let n = nd.usize_in(CAP, F);
    let h = nd.usize_in(1, CAP - 1);
    let kind = nd.u8_in(0, 3);
    nd.note("format", b"fasta");
    nd.note("file", &file[h..n]);
    nd.note_num("cap", CAP as u64);
    nd.assume(file[h] == b'>');
    let f = &file[..n];
    let exp = fa_record(f, h);
    nd.assume(!exp.overflow);
    nd.assume(!(exp.complete && exp.next < CAP));
    let v = ends_before_k(nd, &exp, CAP - 1, K);
    let st = FaState { start: h, search_pos: if f[CAP - 1] == LF { CAP - 1 } else { CAP }, line: 1, byte: h as u64, state: 2 };
    let mut src = Src::<F>::plain(file, n);
    src.fault_at = 1;
    src.fault_kind = kind;
    let br = window::<F>(src, CAP, 0);
    let pol = RecPolicy { answer: None, asked: 0, n: 0 };
    let mut r = fasta::Reader::verif_from_parts(br, pol, st.start, v, st.line, st.byte, st.search_pos, st.state);
    let res = r.verif_resume_incomplete_search(true);
    match res {
        Ok(_) => {
            vassert!(false, "C14 an error of the source during a refill is never swallowed");
        }
        Err(fasta::Error::Io(e)) => {
            vassert!(e.kind() == kind_of(kind), "C14 the error kind of the source is preserved by the refill");
            vassert!(r.verif_state() == 4, "C14 a failed refill is terminal: later calls report the end of the input");
            vassert!(r.verif_state() == 4, "C06 a failed refill is terminal: later calls do not use the moved coordinates");
            cover!(true, "refill fails");
            std::mem::forget(e);
        }
        Err(e) => {
            vassert!(false, "C14 a source error is not turned into another error");
            std::mem::forget(e);
        }
    }
    std::mem::forget(r);
}
pub fn k_resume_fault_f8_c4_k0<N: Nd>(nd: &mut N) {
    k_resume_fault::<N, 8, 4, 0>(nd)
}
pub fn k_resume_compact_f8_c4_k0<N: Nd>(nd: &mut N) {
    k_resume_compact::<N, 8, 4, 0>(nd)
}
pub fn k_resume_compact_f8_c4_k1<N: Nd>(nd: &mut N) {
    k_resume_compact::<N, 8, 4, 1>(nd)
}
pub fn k_resume_compact_f10_c5_k0<N: Nd>(nd: &mut N) {
    k_resume_compact::<N, 10, 5, 0>(nd)
}
pub fn k_resume_compact_f10_c5_k1<N: Nd>(nd: &mut N) {
    k_resume_compact::<N, 10, 5, 1>(nd)
}
pub fn k_resume_compact_f10_c5_k2<N: Nd>(nd: &mut N) {
    k_resume_compact::<N, 10, 5, 2>(nd)
}
pub fn k_resume_grow_f7_c4_k0<N: Nd>(nd: &mut N) {
    k_resume_grow::<N, 7, 4, 0>(nd)
}
pub fn k_resume_grow_f7_c4_k1<N: Nd>(nd: &mut N) {
    k_resume_grow::<N, 7, 4, 1>(nd)
}
pub fn k_resume_grow_f7_c4_k2<N: Nd>(nd: &mut N) {
    k_resume_grow::<N, 7, 4, 2>(nd)
}

harnesses! {
    @reg registry4;
    /// @meta props=C01,C03,C09,C06,C14:t tier=quick kind=K stage2=pub timeout=2400 mem=20 unwind=10 unwindset="_resume_incomplete_search:2;seq_io::fill_buf:6" bounds="fasta::Reader::resume_incomplete_search(make_room) for an unfinished record at every start 1..3 of a full buffer of capacity 4 over every file <= 8 bytes, first refill read of 1..3 bytes or complete, policy refusing growth; no line end recorded yet"
    fak_resume_compact_f8_c4_k0 => k_resume_compact_f8_c4_k0;
    /// @meta props=C14,C06 tier=quick kind=K stage2=pub timeout=1500 mem=16 unwind=10 unwindset="_resume_incomplete_search:2;seq_io::fill_buf:6" bounds="fasta::Reader::resume_incomplete_search(make_room) as fak_resume_compact_f8_c4_k0, the first read of the refill failing with one of 4 error kinds"
    fak_resume_fault_f8_c4_k0 => k_resume_fault_f8_c4_k0;
    /// @meta props=C01,C03,C09,C06,C14:t tier=quick kind=K stage2=pub timeout=2400 mem=20 unwind=10 unwindset="_resume_incomplete_search:2;seq_io::fill_buf:6" bounds="as fak_resume_compact_f8_c4_k0, one line end already recorded"
    fak_resume_compact_f8_c4_k1 => k_resume_compact_f8_c4_k1;
    /// @meta props=C01:t,C03:t,C09:t,C06:t tier=thorough kind=K stage2=pub timeout=5000 mem=30 unwind=12 unwindset="_resume_incomplete_search:2;seq_io::fill_buf:7" bounds="as fak_resume_compact_f8_c4_k0 with capacity 5 over files <= 10 bytes, 0 line end(s) already recorded"
    fak_resume_compact_f10_c5_k0 => k_resume_compact_f10_c5_k0;
    /// @meta props=C01:t,C03:t,C09:t,C06:t tier=thorough kind=K stage2=pub timeout=5000 mem=30 unwind=12 unwindset="_resume_incomplete_search:2;seq_io::fill_buf:7" bounds="as fak_resume_compact_f8_c4_k0 with capacity 5 over files <= 10 bytes, 1 line end(s) already recorded"
    fak_resume_compact_f10_c5_k1 => k_resume_compact_f10_c5_k1;
    /// @meta props=C01:t,C03:t,C09:t,C06:t tier=thorough kind=K stage2=pub timeout=5000 mem=30 unwind=12 unwindset="_resume_incomplete_search:2;seq_io::fill_buf:7" bounds="as fak_resume_compact_f8_c4_k0 with capacity 5 over files <= 10 bytes, 2 line end(s) already recorded"
    fak_resume_compact_f10_c5_k2 => k_resume_compact_f10_c5_k2;
    /// @meta props=X00 tier=pilot kind=K stage2=pub timeout=2400 mem=20 unwind=10 unwindset="_resume_incomplete_search:2;seq_io::fill_buf:7" bounds="fasta::Reader::resume_incomplete_search (both make_room values) for an unfinished first record in a full buffer of capacity 4 over every file <= 7 bytes, first read after the growth of 1..4 bytes or complete, policy granting capacity 8; no line end recorded yet"
    #[kani::stub(std::alloc::realloc, crate::util::byte_realloc)]
    fak_resume_grow_f7_c4_k0 => k_resume_grow_f7_c4_k0;
    /// @meta props=X00 tier=pilot kind=K stage2=pub timeout=2400 mem=20 unwind=10 unwindset="_resume_incomplete_search:2;seq_io::fill_buf:7" bounds="as fak_resume_grow_f7_c4_k0, one line end already recorded"
    #[kani::stub(std::alloc::realloc, crate::util::byte_realloc)]
    fak_resume_grow_f7_c4_k1 => k_resume_grow_f7_c4_k1;
    /// @meta props=X00 tier=pilot kind=K stage2=pub timeout=2400 mem=20 unwind=10 unwindset="_resume_incomplete_search:2;seq_io::fill_buf:7" bounds="as fak_resume_grow_f7_c4_k0, two line ends already recorded"
    #[kani::stub(std::alloc::realloc, crate::util::byte_realloc)]
    fak_resume_grow_f7_c4_k2 => k_resume_grow_f7_c4_k2;
}

#!/bin/bash
# mut_one.sh <seeded-id> <property> <harness-regex> [tier] : run selected harnesses against one seeded change (scratch worktree)
id=$1; prop=$2; m=$3; tier=${4:-quick}
wt=/tmp/wt/one_${id}_$$
cd /repo && git worktree add -q --detach $wt HEAD || exit 9
cd $wt && git apply /verif/seeded/$id/patch.diff || { echo "$id PATCH-FAILED"; cd /repo; git worktree remove --force $wt; exit 9; }
s=$(date +%s)
cd /verif
out=$(VERIF_REPO=$wt python3 check.py $prop --tier $tier --match "$m" --jobs ${JOBS:-3} 2>&1); rc=$?
echo "$id prop=$prop match=$m tier=$tier rc=$rc $(( $(date +%s) - s ))s | $(echo "$out" | grep -E '^VIOLATION' | head -1) | $(echo "$out" | grep -E 'harness=' | head -1 | cut -c1-220) | $(echo "$out" | grep -E 'INCONCLUSIVE|BROKEN' | head -1 | cut -c1-200)"
mkdir -p /verif/.work/logs; echo "$out" > /verif/.work/logs/one_${id}_$prop.out
tag=$(python3 -c "import hashlib;print(hashlib.sha1('$wt'.encode()).hexdigest()[:8])")
rm -rf /verif/.work/alt-$tag
cd /repo && git worktree remove --force $wt

#!/bin/bash
# tools_mut.sh <patch.diff> <PROP> [<PROP>...] : apply a seeded change to /repo, run the quick checks, undo it
set -u
patch=$1; shift
cd /repo && git apply "$patch" || { echo "PATCH DOES NOT APPLY"; exit 9; }
for p in "$@"; do
  out=$(cd /verif && python3 check.py $p --tier ${TIER:-quick} 2>&1)
  rc=$?
  echo "== $p rc=$rc"
  echo "$out" | grep -E "VIOLATION|KNOWN-FINDING|INCONCLUSIVE|BROKEN|harness=|tier=" | cut -c1-400
done
cd /repo && git checkout -- . 

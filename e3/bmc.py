#!/usr/bin/env python3
"""bmc.py — z3 bounded model checking of the product of the thread automata extracted from the MIR
of src/parallel.rs (mirx.py) with hand-written axioms for std::sync::mpsc::sync_channel,
crossbeam scoped threads and scoped_threadpool.  The schedule (which thread moves, which outcome an
action has) is one symbolic variable per step; the environment (number of record sets, reader
error, failing initialisers, consumer behaviour) is symbolic as well.
"""
import z3

W = 5  # counters, tokens, registers: 5-bit signed bit-vectors (-16..15); program counters: 8 bits
WPC = 8


def IV(x):
    return z3.BitVecVal(x, W)


class Model:
    def __init__(self, main, reader, job, QL, NTHR, KMAX):
        self.QL, self.KMAX = QL, KMAX
        # worker count and channel capacities are what the code says (extracted), not assumed
        self.NTHR = reader.pool_size if reader.pool_size is not None else NTHR
        caps = {}
        for (s0, L, d0) in main.edges:
            for prim in L:
                if prim[0] == "chan":
                    caps[prim[1]] = prim[2]
        self.capE, self.capD = caps.get("E", QL), caps.get("D", QL)
        self.QMAX = max(self.capE, self.capD, 1)
        self.kinds = getattr(job, "kinds", [job])
        # job slots: one job per successfully filled set, plus one for every further kind of job
        self.NJ = KMAX + (len(self.kinds) - 1)
        self.NT = QL + 3          # token ids (the code should create QL+1)
        # one automaton instance per (slot, kind); an instance only moves if its slot holds a job of its kind
        self.auts = [("main", main, None), ("reader", reader, None)]
        self.slot_tids = {}
        for j in range(self.NJ):
            for k, A in enumerate(self.kinds):
                self.slot_tids[(j, k)] = len(self.auts)
                self.auts.append(("job", A, (j, k)))
        # global edge list
        self.edges = []           # (tid, src, label, dst)
        for tid, (role, A, j) in enumerate(self.auts):
            for (s, l, d) in A.edges:
                self.edges.append((tid, s, l, d))
        self.E = len(self.edges)
        self.regnames = []
        for tid, (role, A, j) in enumerate(self.auts):
            for r in sorted(A.regs):
                self.regnames.append((tid, r))
        # scenario constants
        self.K = z3.BitVec("K", W)
        self.ENDERR = z3.Bool("ENDERR")
        self.RIFAIL = z3.Bool("RIFAIL")
        self.DIFAIL = z3.BitVec("DIFAIL", W)
        self.scen = z3.And(self.K >= 0, self.K <= KMAX, self.DIFAIL >= -1, self.DIFAIL <= QL + 1)
        self.end_states = []
        for tid, (role, A, j) in enumerate(self.auts):
            ends = {d for (s, l, d) in A.edges if l[-1][0] == "end"}
            self.end_states.append(ends)
        self.main_end_ok = {d for (s, l, d) in main.edges if l[-1][0] == "end" and l[-1][1].startswith("Ok")}
        self.main_end_err = {d for (s, l, d) in main.edges if l[-1][0] == "end" and l[-1][1].startswith("Err")}

    # ---------------------------------------------------------------------------------------
    def state(self, t):
        S = {}
        I = lambda n: z3.BitVec("%s@%d" % (n, t), W)
        B = lambda n: z3.Bool("%s@%d" % (n, t))
        for tid in range(len(self.auts)):
            S["pc%d" % tid] = z3.BitVec("pc%d@%d" % (tid, t), WPC)
        for j in range(self.NJ):
            S["jst%d" % j] = I("jst%d" % j)
            S["jkind%d" % j] = I("jkind%d" % j)
        S["qE_len"] = I("qE_len")
        S["qD_len"] = I("qD_len")
        for i in range(self.QMAX):
            S["qE%d" % i] = I("qE%d" % i)
            S["qDk%d" % i] = I("qDk%d" % i)   # 0 none, 1 ok, 2 err
            S["qDt%d" % i] = I("qDt%d" % i)
            S["qDo%d" % i] = I("qDo%d" % i)
        for n in ("sD", "rD", "sE", "rE", "created", "ndi", "nfill", "njobs", "CUR", "ndeliv", "nerrdeliv", "lastidx", "spawned", "rres"):
            S[n] = I(n)
        for n in ("fdone", "panic", "badpair", "badorder", "sawnone", "dup", "stale"):
            S[n] = B(n)
        for i in range(self.NT):
            S["fi%d" % i] = I("fi%d" % i)     # batch index the token was last filled with (-1 none)
            S["wi%d" % i] = I("wi%d" % i)     # batch index the worker saw
        for b in range(self.KMAX):
            S["cnt%d" % b] = I("cnt%d" % b)
        for (tid, r) in self.regnames:
            S["R%d:%s" % (tid, r)] = I("R%d:%s" % (tid, r))
        return S

    def init(self, S):
        c = []
        for tid, (role, A, j) in enumerate(self.auts):
            c.append(S["pc%d" % tid] == A.init)
        for j in range(self.NJ):
            c.append(S["jst%d" % j] == 0)
            c.append(S["jkind%d" % j] == 0)
        for n in ("qE_len", "qD_len", "sD", "rD", "sE", "rE", "created", "ndi", "nfill", "njobs", "ndeliv", "nerrdeliv", "spawned", "rres"):
            c.append(S[n] == 0)
        c.append(S["CUR"] == -1)
        c.append(S["lastidx"] == -1)
        for n in ("fdone", "panic", "badpair", "badorder", "sawnone", "dup", "stale"):
            c.append(z3.Not(S[n]))
        for i in range(self.NT):
            c.append(S["fi%d" % i] == -1)
            c.append(S["wi%d" % i] == -1)
        for b in range(self.KMAX):
            c.append(S["cnt%d" % b] == 0)
        for i in range(self.QMAX):
            c += [S["qE%d" % i] == -1, S["qDk%d" % i] == 0, S["qDt%d" % i] == -1, S["qDo%d" % i] == -1]
        for (tid, r) in self.regnames:
            c.append(S["R%d:%s" % (tid, r)] == -1)
        return z3.And(c)

    # helpers -------------------------------------------------------------------------------
    def sel_array(self, S, prefix, idx, n):
        """value of S[prefix+i] at symbolic index idx"""
        e = S["%s%d" % (prefix, n - 1)]
        for i in range(n - 2, -1, -1):
            e = z3.If(idx == i, S["%s%d" % (prefix, i)], e)
        return e

    def running(self, S):
        return sum([z3.If(S["jst%d" % j] == 2, IV(1), IV(0)) for j in range(self.NJ)], IV(0))

    def alljobsdone(self, S):
        return z3.And([z3.And(S["jst%d" % j] != 1, S["jst%d" % j] != 2) for j in range(self.NJ)])

    def reader_done(self, S):
        return z3.Or([S["pc1"] == e for e in self.end_states[1]])

    def terminated(self, S):
        m = z3.Or([S["pc0"] == e for e in self.end_states[0]])
        r = z3.Or(S["spawned"] == 0, self.reader_done(S))
        return z3.And(m, r, self.alljobsdone(S))

    # one edge: (guard, updates) --------------------------------------------------------------
    def edge_sem(self, S0, ei):
        """guard and updates of one automaton edge = a sequence of primitive actions executed atomically"""
        tid, src, labs, dst = self.edges[ei]
        role, A, jslot = self.auts[tid]
        g = [S0["pc%d" % tid] == src, z3.Not(S0["panic"])]
        cur = dict(S0)
        tot = {"pc%d" % tid: z3.BitVecVal(dst, WPC)}
        if role == "reader":
            g.append(S0["spawned"] == 1)
        if role == "job":
            jslot, jk = jslot
            js = S0["jst%d" % jslot]
            g.append(S0["jkind%d" % jslot] == jk)
            if src == A.init:
                earlier = [S0["jst%d" % i] != 1 for i in range(jslot)]
                g += [js == 1, self.running(S0) < self.NTHR] + earlier
                tot["jst%d" % jslot] = IV(2)
                cur["jst%d" % jslot] = IV(2)
            else:
                g.append(js == 2)
        for lab in labs:
            gi, ui = self.prim_sem(cur, tid, lab)
            g += gi
            cur.update(ui)
            tot.update(ui)
        tot["pc%d" % tid] = z3.BitVecVal(dst, WPC)
        return z3.And(g), tot

    def prim_sem(self, S, tid, lab):
        role, A, jslot = self.auts[tid]
        g = []
        u = {}
        R = lambda r: S["R%d:%s" % (tid, r)]
        QL = self.QMAX
        a = lab[0]
        if a == "tau":
            pass
        elif a == "chan":
            ch = lab[1]
            u["s" + ch] = S["s" + ch] + 1
            u["r" + ch] = S["r" + ch] + 1
        elif a == "spawn":
            u["spawned"] = IV(1)
        elif a == "init_r":
            g.append(self.RIFAIL if lab[1] == "err" else z3.Not(self.RIFAIL))
        elif a == "init_d":
            if lab[1] == "err":
                g.append(S["ndi"] == self.DIFAIL)
            else:
                g.append(S["ndi"] != self.DIFAIL)
                g.append(S["created"] < self.NT)
                u["R%d:%s" % (tid, lab[2])] = S["created"]
                u["created"] = S["created"] + 1
            u["ndi"] = S["ndi"] + 1
        elif a == "consumer_enter":
            u["CUR"] = R(lab[1])
        elif a in ("c_next", "c_stop", "scope_exit", "pool_enter"):
            if a == "c_next":
                g.append(z3.Not(S["sawnone"]))
            if a == "scope_exit":
                g.append(z3.Or(S["spawned"] == 0, self.reader_done(S)))
        elif a == "pool_exit":
            g.append(self.alljobsdone(S))
        elif a == "join_all":
            g.append(self.alljobsdone(S))
        elif a == "join":
            g.append(self.reader_done(S))
            g.append(S["rres"] == IV(1 if lab[1] == "err" else 0))
        elif a == "end":
            if role == "reader":
                u["rres"] = IV(1 if lab[1].startswith("Err") else 0)
            if role == "job":
                u["jst%d" % jslot[0]] = IV(3)
        elif a == "panic":
            u["panic"] = z3.BoolVal(True)
        elif a == "clone":
            u[lab[1]] = S[lab[1]] + 1
        elif a == "drop":
            for ep in lab[1]:
                if ep == "CUR":
                    u["CUR"] = IV(-1)
                else:
                    u[ep] = S[ep] - 1
        elif a == "recv_E":
            if lab[1] == "ok":
                g.append(S["qE_len"] > 0)
                u["R%d:%s" % (tid, lab[2])] = S["qE0"]
                for i in range(QL):
                    u["qE%d" % i] = S["qE%d" % (i + 1)] if i + 1 < QL else IV(-1)
                u["qE_len"] = S["qE_len"] - 1
            else:
                g += [S["qE_len"] == 0, S["sE"] == 0]
        elif a == "send_E":
            if lab[1] == "ok":
                g += [S["rE"] > 0, S["qE_len"] < self.capE]
                for i in range(QL):
                    u["qE%d" % i] = z3.If(S["qE_len"] == i, R(lab[2]), S["qE%d" % i])
                u["qE_len"] = S["qE_len"] + 1
            else:
                g.append(S["rE"] == 0)
        elif a == "recv_D":
            kind = {"none": 0, "ok": 1, "err": 2}
            if lab[1] == "closed":
                g += [S["qD_len"] == 0, S["sD"] == 0]
            else:
                g += [S["qD_len"] > 0, S["qDk0"] == kind[lab[1]]]
                if lab[1] == "ok":
                    u["R%d:%s" % (tid, lab[2])] = S["qDt0"]
                    u["R%d:%s" % (tid, lab[3])] = S["qDo0"]
                for i in range(QL):
                    for p in ("qDk", "qDt", "qDo"):
                        u["%s%d" % (p, i)] = S["%s%d" % (p, i + 1)] if i + 1 < QL else IV(0 if p == "qDk" else -1)
                u["qD_len"] = S["qD_len"] - 1
        elif a == "send_D":
            kind = lab[2]
            if lab[1] == "ok":
                g += [S["rD"] > 0, S["qD_len"] < self.capD]
                k = {"none": 0, "ok": 1, "err": 2}[kind]
                tokv = R(lab[3]) if kind == "ok" else IV(-1)
                outv = self.sel_array(S, "wi", R(lab[4]), self.NT) if kind == "ok" else IV(-1)
                for i in range(QL):
                    u["qDk%d" % i] = z3.If(S["qD_len"] == i, IV(k), S["qDk%d" % i])
                    u["qDt%d" % i] = z3.If(S["qD_len"] == i, tokv, S["qDt%d" % i])
                    u["qDo%d" % i] = z3.If(S["qD_len"] == i, outv, S["qDo%d" % i])
                u["qD_len"] = S["qD_len"] + 1
            else:
                g.append(S["rD"] == 0)
        elif a == "fill":
            tok = R(lab[2])
            if lab[1] == "ok":
                g += [S["nfill"] < self.K, z3.Not(S["fdone"])]
                for i in range(self.NT):
                    u["fi%d" % i] = z3.If(tok == i, S["nfill"], S["fi%d" % i])
                u["nfill"] = S["nfill"] + 1
            elif lab[1] == "none":
                g.append(z3.Or(S["fdone"], z3.And(S["nfill"] == self.K, z3.Not(self.ENDERR))))
                u["fdone"] = z3.BoolVal(True)
            else:
                g += [z3.Not(S["fdone"]), S["nfill"] == self.K, self.ENDERR]
                u["fdone"] = z3.BoolVal(True)
        elif a == "execute":
            kind, reg = lab[1], lab[2]
            g.append(S["njobs"] < self.NJ)
            for j in range(self.NJ):
                u["jst%d" % j] = z3.If(S["njobs"] == j, IV(1), S["jst%d" % j])
                u["jkind%d" % j] = z3.If(S["njobs"] == j, IV(kind), S["jkind%d" % j])
                if reg is not None:
                    jt = self.slot_tids[(j, kind)]
                    u["R%d:job.tok" % jt] = z3.If(S["njobs"] == j, R(reg), S["R%d:job.tok" % jt])
            u["njobs"] = S["njobs"] + 1
        elif a == "work":
            tok = R(lab[1])
            for i in range(self.NT):
                u["wi%d" % i] = z3.If(tok == i, S["fi%d" % i], S["wi%d" % i])
        elif a == "replace_cur":
            u["R%d:%s" % (tid, lab[2])] = S["CUR"]
            u["CUR"] = R(lab[1])
        elif a == "deliver":
            b = self.sel_array(S, "fi", S["CUR"], self.NT)
            out = R(lab[1])
            u["badpair"] = z3.Or(S["badpair"], out != b, b < 0)
            u["badorder"] = z3.Or(S["badorder"], b <= S["lastidx"])
            u["lastidx"] = b
            u["ndeliv"] = S["ndeliv"] + 1
            for k in range(self.KMAX):
                u["cnt%d" % k] = z3.If(b == k, S["cnt%d" % k] + 1, S["cnt%d" % k])
            u["dup"] = z3.Or(S["dup"], z3.Or([z3.And(b == k, S["cnt%d" % k] >= 1) for k in range(self.KMAX)]))
        elif a == "deliver_err":
            u["nerrdeliv"] = S["nerrdeliv"] + 1
        elif a == "deliver_none":
            u["sawnone"] = z3.BoolVal(True)
        else:
            raise Exception("no semantics for action %r" % (lab,))
        return g, u

    def step(self, S, S2, sel):
        guards = []
        upd = {}
        for ei in range(self.E):
            g, u = self.edge_sem(S, ei)
            guards.append(z3.And(sel == ei, g))
            for k, v in u.items():
                upd.setdefault(k, []).append((ei, v))
        # stutter when everything has terminated, after a panic, or in a deadlocked state (no edge
        # enabled) - otherwise deadlocked runs could not be extended to the unrolling depth and
        # would silently drop out of every query
        guards.append(z3.And(sel == self.E, z3.Or(self.terminated(S), S["panic"], z3.Not(self.any_enabled(S)))))
        cons = [z3.Or(guards)]
        for k in S:
            e = S[k]
            for ei, v in upd.get(k, []):
                e = z3.If(sel == ei, v, e)
            cons.append(S2[k] == e)
        return z3.And(cons)

    def any_enabled(self, S):
        return z3.Or([self.edge_sem(S, ei)[0] for ei in range(self.E)])

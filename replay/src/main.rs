//! replay <harness> <tape>
//!   tape = comma separated hex strings, one per nondeterministic value, little endian
//!          (exactly the `concrete_vals` of Kani's concrete playback)
//! Output (one JSON object on the last stdout line):
//!   {"harness":..,"outcome":"fail"|"pass"|"assume"|"unknown-harness","message":..,"notes":{..}}
//! exit code: 1 = the harness assertion failed natively, 0 = passed, 3 = assumption violated / unusable tape
use std::alloc::{GlobalAlloc, Layout, System};
use std::panic;
use sv::nd::{AssumeViolated, TapeNd};

/// counting allocator: the native counterpart of the allocation-counting stubs of the C18 harnesses
struct Counting;
unsafe impl GlobalAlloc for Counting {
    unsafe fn alloc(&self, l: Layout) -> *mut u8 {
        sv::c18::ALLOCS += 1;
        System.alloc(l)
    }
    unsafe fn alloc_zeroed(&self, l: Layout) -> *mut u8 {
        sv::c18::ALLOCS += 1;
        System.alloc_zeroed(l)
    }
    unsafe fn realloc(&self, p: *mut u8, l: Layout, n: usize) -> *mut u8 {
        sv::c18::ALLOCS += 1;
        System.realloc(p, l, n)
    }
    unsafe fn dealloc(&self, p: *mut u8, l: Layout) {
        System.dealloc(p, l)
    }
}
#[global_allocator]
static GLOBAL: Counting = Counting;

fn parse_tape(s: &str) -> Vec<Vec<u8>> {
    if s.is_empty() || s == "-" {
        return vec![];
    }
    s.split(',')
        .map(|h| {
            let h = h.trim();
            (0..h.len() / 2)
                .map(|i| u8::from_str_radix(&h[2 * i..2 * i + 2], 16).unwrap())
                .collect()
        })
        .collect()
}

fn json_str(s: &str) -> String {
    let mut o = String::from("\"");
    for c in s.chars() {
        match c {
            '"' => o.push_str("\\\""),
            '\\' => o.push_str("\\\\"),
            '\n' => o.push_str("\\n"),
            '\r' => o.push_str("\\r"),
            '\t' => o.push_str("\\t"),
            c if (c as u32) < 0x20 => o.push_str(&format!("\\u{:04x}", c as u32)),
            c => o.push(c),
        }
    }
    o.push('"');
    o
}

fn main() {
    let args: Vec<String> = std::env::args().collect();
    if args.len() >= 2 && args[1] == "--list" {
        for (n, _) in sv::registry() {
            println!("{}", n);
        }
        return;
    }
    if args.len() < 3 {
        eprintln!("usage: replay <harness> <tape> | replay --list");
        std::process::exit(2);
    }
    let name = &args[1];
    let tape = parse_tape(&args[2]);
    let reg = sv::registry();
    let f = match reg.iter().find(|(n, _)| n == name) {
        Some((_, f)) => *f,
        None => {
            println!("{{\"harness\":{},\"outcome\":\"unknown-harness\"}}", json_str(name));
            std::process::exit(2);
        }
    };
    // keep panic messages out of stderr noise but capture them
    let msg_cell = std::sync::Arc::new(std::sync::Mutex::new(String::new()));
    let mc = msg_cell.clone();
    panic::set_hook(Box::new(move |info| {
        let mut m = mc.lock().unwrap();
        let payload = if let Some(s) = info.payload().downcast_ref::<&str>() {
            s.to_string()
        } else if let Some(s) = info.payload().downcast_ref::<String>() {
            s.clone()
        } else if info.payload().downcast_ref::<AssumeViolated>().is_some() {
            "<assume>".to_string()
        } else {
            "<non-string panic>".to_string()
        };
        let loc = info
            .location()
            .map(|l| format!(" at {}:{}", l.file(), l.line()))
            .unwrap_or_default();
        *m = format!("{}{}", payload, loc);
    }));
    let mut nd = TapeNd::new(tape);
    let res = panic::catch_unwind(panic::AssertUnwindSafe(|| f(&mut nd)));
    let msg = msg_cell.lock().unwrap().clone();
    let (outcome, code) = match res {
        Ok(()) => {
            if nd.exhausted {
                ("pass-tape-exhausted", 0)
            } else {
                ("pass", 0)
            }
        }
        Err(p) => {
            if p.downcast_ref::<AssumeViolated>().is_some() {
                ("assume", 3)
            } else {
                ("fail", 1)
            }
        }
    };
    let mut notes = String::from("{");
    for (i, (k, v)) in nd.notes.iter().enumerate() {
        if i > 0 {
            notes.push(',');
        }
        notes.push_str(&format!("{}:{}", json_str(k), json_str(v)));
    }
    notes.push('}');
    println!(
        "{{\"harness\":{},\"outcome\":{},\"message\":{},\"notes\":{},\"tape_used\":{}}}",
        json_str(name),
        json_str(outcome),
        json_str(&msg),
        notes,
        nd.next
    );
    std::process::exit(code);
}

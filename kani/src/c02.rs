//! C02 (+C05, C12, C17, C06 for FASTQ) — the real FASTQ reader run from a symbolic internal
//! state (hook constructor) on a fully symbolic small file, compared with the reference.
use crate::nd::Nd;
use crate::spec::*;
use crate::src::*;
use buffer_redux::BufReader;
use seq_io::fastq::{self, Record};
use seq_io::policy::StdPolicy;

pub fn any_file<N: Nd, const F: usize>(nd: &mut N) -> [u8; F] {
    let mut f = [0u8; F];
    let mut i = 0;
    while i < F {
        f[i] = nd.u8();
        i += 1;
    }
    f
}

pub fn same(a: &[u8], f: &[u8], r: (usize, usize)) -> bool {
    if a.len() != r.1 - r.0 {
        return false;
    }
    let mut ok = true;
    let mut i = 0;
    while i < f.len() {
        if i < a.len() && a[i] != f[r.0 + i] {
            ok = false;
        }
        i += 1;
    }
    ok
}

/// reader whose buffer holds `file[..min(cap, n)]` (one real read through buffer-redux),
/// positioned at `pos0` inside the window
pub fn fq_reader_at<const F: usize>(
    file: [u8; F],
    n: usize,
    cap: usize,
    pos0: usize,
    line: u64,
    byte: u64,
    state: u8,
) -> fastq::Reader<Src<F>, StdPolicy> {
    let mut br = BufReader::with_capacity(cap, Src::<F>::plain(file, n));
    let r = br.read_into_buf();
    std::mem::forget(r);
    fastq::Reader::verif_from_parts(br, StdPolicy, fastq::VerifBufPos::new(pos0, 0, 0, 0, 0), 0, line, byte, state)
}

/// checks one outcome of next()/set reading against the reference verdict for the group at `p`
/// returns (is_record, next_p)
pub fn check_outcome<const F: usize>(
    res: Option<Result<fastq::RefRecord, fastq::Error>>,
    f: &[u8],
    p: usize,
    line0: u64,
    p0: usize,
) -> (bool, bool) {
    // line0 = line number of byte offset p0 (symbolic base of the cursor)
    let v = fq_verdict(f, p);
    let g = fq_group(f, p);
    let hline = line0 + count_lf(f, p0, p) as u64;
    match res {
        None => {
            assert!(v.end, "C02 end of input only when no further group (or a blank tail) remains");
            (false, true)
        }
        Some(Ok(rec)) => {
            assert!(v.record, "C02 a record is returned only for a valid group of four lines");
            assert!(same(rec.head(), f, fq_head(f, &g)), "C02 header content");
            assert!(same(rec.seq(), f, fq_line(f, &g, 1)), "C02 sequence content");
            assert!(same(rec.qual(), f, fq_line(f, &g, 3)), "C02 quality content");
            (true, false)
        }
        Some(Err(e)) => {
            match &e {
                fastq::Error::InvalidStart { found, pos } => {
                    assert!(v.invalid_start, "C02 invalid-start error only for a group not starting with '@'");
                    assert!(*found == f[p], "C17 invalid start reports the byte found");
                    assert!(pos.line == hline, "C17 invalid start reports the header line");
                }
                fastq::Error::InvalidSep { found, pos } => {
                    assert!(v.invalid_sep, "C02 invalid-separator error only for a third line not starting with '+'");
                    assert!(*found == f[g.starts[2]], "C17 invalid separator reports the byte found");
                    assert!(pos.line == hline + 2, "C17 invalid separator reports the separator line");
                }
                fastq::Error::UnequalLengths { seq, qual, pos } => {
                    assert!(v.unequal, "C02 unequal-lengths error only when the lengths differ");
                    let (sa, sb) = fq_line(f, &g, 1);
                    let (qa, qb) = fq_line(f, &g, 3);
                    assert!(*seq == sb - sa && *qual == qb - qa, "C17 unequal lengths reports the actual lengths");
                    assert!(pos.line == hline, "C17 unequal lengths reports the header line");
                }
                fastq::Error::UnexpectedEnd { pos } => {
                    assert!(v.unexpected_end, "C02 unexpected-end error only for a truncated group");
                    assert!(pos.line == line0 + count_lf(f, p0, f.len()) as u64, "C17 unexpected end reports the line on which the input ends");
                }
                _ => {
                    assert!(false, "C02 no buffer-limit or I/O error with an unlimited policy and a faultless source");
                }
            }
            std::mem::forget(e);
            (false, true)
        }
    }
}

/// S: one next() (then a second one) from `Positioned` at a symbolic offset, the rest of the
/// input is completely inside the window and the end of input is visible (capacity > length).
pub fn fq_next_eof<N: Nd, const F: usize>(nd: &mut N) {
    let file: [u8; F] = any_file::<N, F>(nd);
    let n = nd.usize_in(0, F);
    let p0 = nd.usize_in(0, n);
    let line0 = nd.u64();
    let byte0 = nd.u64();
    nd.assume(line0 < (1 << 40) && byte0 < (1 << 40) && line0 >= 1);
    nd.note("format", b"fastq");
    nd.note("file", &file[p0..n]);
    let mut r = fq_reader_at::<F>(file, n, F + 1, p0, line0, byte0, 2);
    let f = &file[..n];
    let g = fq_group(f, p0);
    let res = r.next();
    let (is_rec, ended) = check_outcome::<F>(res, f, p0, line0, p0);
    if is_rec {
        let pos = r.position();
        assert!(pos.byte() == byte0, "C05 byte offset of the returned record");
        assert!(pos.line() == line0, "C05 line number of the returned record");
    }
    cover!(is_rec, "a record was returned");
    cover!(is_rec && g.lfs == 3, "last record without terminator");
    cover!(!is_rec && !ended, "unreachable witness must stay unsatisfied");
    // second call: next group or end of input, with the cursor advanced by the record's extent
    let res2 = r.next();
    if ended {
        assert!(res2.is_none(), "C02 every read after the error or the last record reports end of input");
        std::mem::forget(res2);
    } else {
        let (is_rec2, _) = check_outcome::<F>(res2, f, g.next, line0, p0);
        if is_rec2 {
            let pos = r.position();
            assert!(pos.byte() == byte0 + (g.next - p0) as u64, "C05 byte offset of the second record");
            assert!(pos.line() == line0 + 4, "C05 line number of the second record");
        }
        cover!(is_rec2, "a second record was returned");
    }
    std::mem::forget(r);
}

pub fn s_next_eof_f9<N: Nd>(nd: &mut N) {
    fq_next_eof::<N, 9>(nd)
}

harnesses! {
    /// @meta props=C02,C05,C17,C06,C12 tier=quick kind=S stage2=pub timeout=1800 mem=16 bounds="FASTQ next() twice from Positioned at every offset of every file of <= 9 bytes, end of input inside the window (capacity 10), real buffer-redux" unwind=12
    #[kani::stub(std::string::String::from_utf8_lossy, crate::src::stub_lossy_empty)]
    c02_s_next_eof_f9 => s_next_eof_f9;
}

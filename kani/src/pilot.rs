//! scratch experiments (tier=pilot: never part of a registered check)
use crate::fak::*;
use crate::fqk::{any_file, window};
use crate::nd::Nd;
use crate::spec::*;
use crate::src::*;
use seq_io::fasta;

/// P2: make_room, fill_buf, search called one after the other through the hooks
pub fn p2<N: Nd>(nd: &mut N) {
    const F: usize = 6;
    const CAP: usize = 3;
    let (h, n, c1) = (2usize, 6usize, 1usize);
    let file: [u8; F] = any_file::<N, F>(nd);
    nd.assume(file[h] == b'>');
    let f = &file[..n];
    let exp = fa_record(f, h);
    nd.assume(!exp.overflow);
    let st = FaState { start: h, search_pos: if f[CAP - 1] == LF { CAP - 1 } else { CAP }, line: 1, byte: h as u64, state: 2 };
    let mut src = Src::<F>::plain(file, n);
    src.chunk[1] = c1;
    let br = window::<F>(src, CAP, 0);
    let mut r = fa_reader(br, &st, Vec::with_capacity(8));
    r.verif_make_room();
    let x = seq_io::verif_fill_buf(r.verif_buf_reader_mut());
    std::mem::forget(x);
    let res = r.verif_search();
    if let Ok(found) = res {
        let needed = if exp.complete { exp.next - h + 1 } else { n - h + 1 };
        if needed <= CAP {
            vassert!(found, "X00 found");
            let sp = r.verif_seq_pos();
            vassert!(sp.len() == exp.nends, "X00 number of ends");
        }
    }
    cover!(true, "reached");
    std::mem::forget(res);
    std::mem::forget(r);
}

/// P3: the resume call itself, line-end vector concretely empty
pub fn p3<N: Nd>(nd: &mut N) {
    use crate::c09::RecPolicy;
    const F: usize = 6;
    const CAP: usize = 3;
    let (h, n, c1) = (2usize, 6usize, 1usize);
    let file: [u8; F] = any_file::<N, F>(nd);
    nd.assume(file[h] == b'>');
    let f = &file[..n];
    let exp = fa_record(f, h);
    nd.assume(!exp.overflow);
    let st = FaState { start: h, search_pos: if f[CAP - 1] == LF { CAP - 1 } else { CAP }, line: 1, byte: h as u64, state: 2 };
    let mut src = Src::<F>::plain(file, n);
    src.chunk[1] = c1;
    let br = window::<F>(src, CAP, 0);
    let pol = RecPolicy { answer: None, asked: 0, n: 0 };
    let mut r = fasta::Reader::verif_from_parts(br, pol, st.start, Vec::with_capacity(8), st.line, st.byte, st.search_pos, st.state);
    let res = r.verif_resume_incomplete_search(true);
    if let Ok(found) = res {
        let needed = if exp.complete { exp.next - h + 1 } else { n - h + 1 };
        if needed <= CAP {
            vassert!(found, "X00 found");
            let sp = r.verif_seq_pos();
            vassert!(sp.len() == exp.nends, "X00 number of ends");
        }
    }
    cover!(true, "reached");
    std::mem::forget(res);
    std::mem::forget(r);
}

/// P4 (conditional pushes): the resume call itself, line-end vector concretely empty
pub fn p4<N: Nd>(nd: &mut N) {
    use crate::c09::RecPolicy;
    const F: usize = 6;
    const CAP: usize = 3;
    let (h, n, c1) = (2usize, 6usize, 1usize);
    let file: [u8; F] = any_file::<N, F>(nd);
    nd.assume(file[h] == b'>');
    let f = &file[..n];
    let exp = fa_record(f, h);
    nd.assume(!exp.overflow);
    let st = FaState { start: h, search_pos: if f[CAP - 1] == LF { CAP - 1 } else { CAP }, line: 1, byte: h as u64, state: 2 };
    let mut src = Src::<F>::plain(file, n);
    src.chunk[1] = c1;
    let br = window::<F>(src, CAP, 0);
    let pol = RecPolicy { answer: None, asked: 0, n: 0 };
    let mut v = Vec::with_capacity(8);
    let mut i = 0;
    while i < FA_MAXL {
        if i < exp.nends && exp.ends[i] < CAP - 1 {
            v.push(exp.ends[i]);
        }
        i += 1;
    }
    let mut r = fasta::Reader::verif_from_parts(br, pol, st.start, v, st.line, st.byte, st.search_pos, st.state);
    let res = r.verif_resume_incomplete_search(true);
    if let Ok(found) = res {
        let needed = if exp.complete { exp.next - h + 1 } else { n - h + 1 };
        if needed <= CAP {
            vassert!(found, "X00 found");
            let sp = r.verif_seq_pos();
            vassert!(sp.len() == exp.nends, "X00 number of ends");
        }
    }
    cover!(true, "reached");
    std::mem::forget(res);
    std::mem::forget(r);
}

/// P6 (fixed pushes + set_len): the resume call itself, line-end vector concretely empty
pub fn p6<N: Nd>(nd: &mut N) {
    use crate::c09::RecPolicy;
    const F: usize = 6;
    const CAP: usize = 3;
    let (h, n, c1) = (2usize, 6usize, 1usize);
    let file: [u8; F] = any_file::<N, F>(nd);
    nd.assume(file[h] == b'>');
    let f = &file[..n];
    let exp = fa_record(f, h);
    nd.assume(!exp.overflow);
    let st = FaState { start: h, search_pos: if f[CAP - 1] == LF { CAP - 1 } else { CAP }, line: 1, byte: h as u64, state: 2 };
    let mut src = Src::<F>::plain(file, n);
    src.chunk[1] = c1;
    let br = window::<F>(src, CAP, 0);
    let pol = RecPolicy { answer: None, asked: 0, n: 0 };
    let mut v = Vec::with_capacity(8);
    let mut i = 0;
    let mut k = 0;
    while i < FA_MAXL {
        if i < CAP {
            v.push(exp.ends[i]);
        }
        if i < exp.nends && exp.ends[i] < CAP - 1 {
            k += 1;
        }
        i += 1;
    }
    unsafe { v.set_len(k) };
    let mut r = fasta::Reader::verif_from_parts(br, pol, st.start, v, st.line, st.byte, st.search_pos, st.state);
    let res = r.verif_resume_incomplete_search(true);
    if let Ok(found) = res {
        let needed = if exp.complete { exp.next - h + 1 } else { n - h + 1 };
        if needed <= CAP {
            vassert!(found, "X00 found");
            let sp = r.verif_seq_pos();
            vassert!(sp.len() == exp.nends, "X00 number of ends");
        }
    }
    cover!(true, "reached");
    std::mem::forget(res);
    std::mem::forget(r);
}

/// p14: the resume call itself, line-end vector concretely empty
pub fn p14<N: Nd>(nd: &mut N) {
    use crate::c09::RecPolicy;
    const F: usize = 6;
    const CAP: usize = 3;
    let (h, n, c1) = (2usize, 6usize, 1usize);
    let file: [u8; F] = any_file::<N, F>(nd);
    nd.assume(file[h] == b'>');
    let f = &file[..n];
    let exp = fa_record(f, h);
    nd.assume(!exp.overflow);
    let st = FaState { start: h, search_pos: if f[CAP - 1] == LF { CAP - 1 } else { CAP }, line: 1, byte: h as u64, state: 2 };
    let mut src = Src::<F>::plain(file, n);
    src.chunk[1] = c1;
    let br = window::<F>(src, CAP, 0);
    let pol = RecPolicy { answer: None, asked: 0, n: 0 };
    let mut v = Vec::with_capacity(8);
    let mut i = 0;
    let mut k = 0;
    while i < FA_MAXL {
        if i < CAP {
            v.push(exp.ends[i]);
        }
        if i < exp.nends && exp.ends[i] < CAP - 1 {
            k += 1;
        }
        i += 1;
    }
    unsafe { v.set_len(k) };
    let mut r = fasta::Reader::verif_from_parts(br, pol, st.start, v, st.line, st.byte, st.search_pos, st.state);
    let res = r.verif_resume_incomplete_search(true);
    if let Ok(found) = res {
        let needed = if exp.complete { exp.next - h + 1 } else { n - h + 1 };
        if needed <= CAP {
            vassert!(found, "X00 found");
            let sp = r.verif_seq_pos();
            vassert!(sp.len() == exp.nends && ends_match_pub(sp, &exp, h, exp.nends), "X00 ends");
        }
    }
    cover!(true, "reached");
    std::mem::forget(res);
    std::mem::forget(r);
}

/// p15: the resume call itself, line-end vector concretely empty
pub fn p15<N: Nd>(nd: &mut N) {
    use crate::c09::RecPolicy;
    const F: usize = 6;
    const CAP: usize = 3;
    let (h, n, c1) = (2usize, 6usize, 1usize);
    let file: [u8; F] = any_file::<N, F>(nd);
    nd.assume(file[h] == b'>');
    let f = &file[..n];
    let exp = fa_record(f, h);
    nd.assume(!exp.overflow);
    let st = FaState { start: h, search_pos: if f[CAP - 1] == LF { CAP - 1 } else { CAP }, line: 1, byte: h as u64, state: 2 };
    let mut src = Src::<F>::plain(file, n);
    src.chunk[1] = c1;
    let br = window::<F>(src, CAP, 0);
    let pol = RecPolicy { answer: None, asked: 0, n: 0 };
    let mut v = Vec::with_capacity(8);
    let mut i = 0;
    let mut k = 0;
    while i < FA_MAXL {
        if i < CAP {
            v.push(exp.ends[i]);
        }
        if i < exp.nends && exp.ends[i] < CAP - 1 {
            k += 1;
        }
        i += 1;
    }
    unsafe { v.set_len(k) };
    let mut r = fasta::Reader::verif_from_parts(br, pol, st.start, v, st.line, st.byte, st.search_pos, st.state);
    let res = r.verif_resume_incomplete_search(true);
    if let Ok(found) = res {
        let needed = if exp.complete { exp.next - h + 1 } else { n - h + 1 };
        if needed <= CAP {
            vassert!(found, "X00 found");
            let sp = r.verif_seq_pos();
            vassert!(sp.len() == exp.nends, "X00 number of ends");
            let b = r.verif_buf_reader().buffer();
            let mut ok = true;
            let mut j = 0;
            while j < CAP {
                if j < b.len() && b[j] != file[h + j] {
                    ok = false;
                }
                j += 1;
            }
            vassert!(ok, "X00 buffer");
        }
    }
    cover!(true, "reached");
    std::mem::forget(res);
    std::mem::forget(r);
}

/// p10: the resume call itself, line-end vector concretely empty
pub fn p10<N: Nd>(nd: &mut N) {
    use crate::c09::RecPolicy;
    const F: usize = 6;
    const CAP: usize = 3;
    let (h, n, c1) = (2usize, 6usize, 1usize);
    let file: [u8; F] = any_file::<N, F>(nd);
    nd.assume(file[h] == b'>');
    let f = &file[..n];
    let exp = fa_record(f, h);
    nd.assume(!exp.overflow);
    let st = FaState { start: h, search_pos: if f[CAP - 1] == LF { CAP - 1 } else { CAP }, line: 1, byte: h as u64, state: 2 };
    let mut src = Src::<F>::plain(file, n);
    src.chunk[1] = c1;
    let br = window::<F>(src, CAP, 0);
    let pol = RecPolicy { answer: None, asked: 0, n: 0 };
    let mut v = Vec::with_capacity(8);
    let mut i = 0;
    let mut k = 0;
    while i < FA_MAXL {
        if i < CAP {
            v.push(exp.ends[i]);
        }
        if i < exp.nends && exp.ends[i] < CAP - 1 {
            k += 1;
        }
        i += 1;
    }
    unsafe { v.set_len(k) };
    let mut r = fasta::Reader::verif_from_parts(br, pol, st.start, v, st.line, st.byte, st.search_pos, st.state);
    let res = r.verif_resume_incomplete_search(true);
    if let Ok(found) = res {
        let needed = if exp.complete { exp.next - h + 1 } else { n - h + 1 };
        if needed <= CAP {
            vassert!(found, "X00 found");
            let sp = r.verif_seq_pos();
            vassert!(sp.len() == exp.nends && ends_match_pub(sp, &exp, h, exp.nends), "X00 ends");
            let b = r.verif_buf_reader().buffer();
            let mut ok = true;
            let mut j = 0;
            while j < CAP {
                if j < b.len() && b[j] != file[h + j] {
                    ok = false;
                }
                j += 1;
            }
            vassert!(ok, "X00 buffer");
        }
    }
    cover!(true, "reached");
    std::mem::forget(res);
    std::mem::forget(r);
}

/// p11: the resume call itself, line-end vector concretely empty
pub fn p11<N: Nd>(nd: &mut N) {
    use crate::c09::RecPolicy;
    const F: usize = 6;
    const CAP: usize = 3;
    let (h, n, c1) = (2usize, 6usize, 1usize);
    let file: [u8; F] = any_file::<N, F>(nd);
    nd.assume(file[h] == b'>');
    let f = &file[..n];
    let exp = fa_record(f, h);
    nd.assume(!exp.overflow);
    let st = FaState { start: h, search_pos: if f[CAP - 1] == LF { CAP - 1 } else { CAP }, line: 1, byte: h as u64, state: 2 };
    let mut src = Src::<F>::plain(file, n);
    src.chunk[1] = c1;
    let br = window::<F>(src, CAP, 0);
    let pol = RecPolicy { answer: None, asked: 0, n: 0 };
    let mut v = Vec::with_capacity(8);
    let mut i = 0;
    let mut k = 0;
    while i < FA_MAXL {
        if i < CAP {
            v.push(exp.ends[i]);
        }
        if i < exp.nends && exp.ends[i] < CAP - 1 {
            k += 1;
        }
        i += 1;
    }
    unsafe { v.set_len(k) };
    let mut r = fasta::Reader::verif_from_parts(br, pol, st.start, v, st.line, st.byte, st.search_pos, st.state);
    let res = r.verif_resume_incomplete_search(true);
    if let Ok(found) = res {
        let needed = if exp.complete { exp.next - h + 1 } else { n - h + 1 };
        if needed <= CAP {
            vassert!(found, "X00 found");
            let sp = r.verif_seq_pos();
            vassert!(sp.len() == exp.nends, "X00 number of ends");
            vassert!(r.policy().n == 0, "X00 policy");
            vassert!(r.verif_buf_reader().capacity() == CAP, "X00 cap");
            vassert!(r.verif_start() == 0, "X00 start");
        }
    }
    cover!(true, "reached");
    std::mem::forget(res);
    std::mem::forget(r);
}

/// p12: the resume call itself, line-end vector concretely empty
pub fn p12<N: Nd>(nd: &mut N) {
    use crate::c09::RecPolicy;
    const F: usize = 6;
    const CAP: usize = 3;
    let (h, n, c1) = (2usize, 6usize, 1usize);
    let file: [u8; F] = any_file::<N, F>(nd);
    nd.assume(file[h] == b'>');
    let f = &file[..n];
    let exp = fa_record(f, h);
    nd.assume(!exp.overflow);
    let st = FaState { start: h, search_pos: if f[CAP - 1] == LF { CAP - 1 } else { CAP }, line: 1, byte: h as u64, state: 2 };
    let mut src = Src::<F>::plain(file, n);
    src.chunk[1] = c1;
    let br = window::<F>(src, CAP, 0);
    let pol = RecPolicy { answer: None, asked: 0, n: 0 };
    let mut v = Vec::with_capacity(8);
    let mut i = 0;
    let mut k = 0;
    while i < FA_MAXL {
        if i < CAP {
            v.push(exp.ends[i]);
        }
        if i < exp.nends && exp.ends[i] < CAP - 1 {
            k += 1;
        }
        i += 1;
    }
    unsafe { v.set_len(k) };
    let mut r = fasta::Reader::verif_from_parts(br, pol, st.start, v, st.line, st.byte, st.search_pos, st.state);
    let res = r.verif_resume_incomplete_search(true);
    if let Ok(found) = res {
        let needed = if exp.complete { exp.next - h + 1 } else { n - h + 1 };
        if needed <= CAP {
            vassert!(found, "X00 found");
            let sp = r.verif_seq_pos();
            vassert!(sp.len() == exp.nends, "X00 number of ends");
            if exp.complete {
                vassert!(r.verif_search_pos() + h == exp.next, "X00 next");
                vassert!(r.verif_state() != 4, "X00 not finished");
            } else {
                vassert!(r.verif_state() == 4, "X00 finished");
            }
        }
    }
    cover!(true, "reached");
    std::mem::forget(res);
    std::mem::forget(r);
}

/// p13: the resume call itself, line-end vector concretely empty
pub fn p13<N: Nd>(nd: &mut N) {
    use crate::c09::RecPolicy;
    const F: usize = 6;
    const CAP: usize = 3;
    let (h, n, c1) = (2usize, 6usize, 1usize);
    let file: [u8; F] = any_file::<N, F>(nd);
    nd.assume(file[h] == b'>');
    let f = &file[..n];
    let exp = fa_record(f, h);
    nd.assume(!exp.overflow);
    let st = FaState { start: h, search_pos: if f[CAP - 1] == LF { CAP - 1 } else { CAP }, line: 1, byte: h as u64, state: 2 };
    let mut src = Src::<F>::plain(file, n);
    src.chunk[1] = c1;
    let br = window::<F>(src, CAP, 0);
    let pol = RecPolicy { answer: None, asked: 0, n: 0 };
    let mut v = Vec::with_capacity(8);
    let mut i = 0;
    let mut k = 0;
    while i < FA_MAXL {
        if i < CAP {
            v.push(exp.ends[i]);
        }
        if i < exp.nends && exp.ends[i] < CAP - 1 {
            k += 1;
        }
        i += 1;
    }
    unsafe { v.set_len(k) };
    let mut r = fasta::Reader::verif_from_parts(br, pol, st.start, v, st.line, st.byte, st.search_pos, st.state);
    let res = r.verif_resume_incomplete_search(true);
    if let Ok(found) = res {
        let needed = if exp.complete { exp.next - h + 1 } else { n - h + 1 };
        if needed <= CAP {
            vassert!(found, "X00 found");
            let sp = r.verif_seq_pos();
            vassert!(sp.len() == exp.nends, "X00 number of ends");
            let b = r.verif_buf_reader().buffer();
            let want = if n - h < CAP { n - h } else { CAP };
            vassert!(b.len() == want, "X00 len");
        }
    }
    cover!(true, "reached");
    std::mem::forget(res);
    std::mem::forget(r);
}

/// P7 (ends_before): the resume call itself, line-end vector concretely empty
pub fn p7<N: Nd>(nd: &mut N) {
    use crate::c09::RecPolicy;
    const F: usize = 6;
    const CAP: usize = 3;
    let (h, n, c1) = (2usize, 6usize, 1usize);
    let file: [u8; F] = any_file::<N, F>(nd);
    nd.assume(file[h] == b'>');
    let f = &file[..n];
    let exp = fa_record(f, h);
    nd.assume(!exp.overflow);
    let st = FaState { start: h, search_pos: if f[CAP - 1] == LF { CAP - 1 } else { CAP }, line: 1, byte: h as u64, state: 2 };
    let mut src = Src::<F>::plain(file, n);
    src.chunk[1] = c1;
    let br = window::<F>(src, CAP, 0);
    let pol = RecPolicy { answer: None, asked: 0, n: 0 };
    let v = ends_before(&exp, CAP - 1);
    let mut r = fasta::Reader::verif_from_parts(br, pol, st.start, v, st.line, st.byte, st.search_pos, st.state);
    let res = r.verif_resume_incomplete_search(true);
    if let Ok(found) = res {
        let needed = if exp.complete { exp.next - h + 1 } else { n - h + 1 };
        if needed <= CAP {
            vassert!(found, "X00 found");
            let sp = r.verif_seq_pos();
            vassert!(sp.len() == exp.nends, "X00 number of ends");
        }
    }
    cover!(true, "reached");
    std::mem::forget(res);
    std::mem::forget(r);
}

/// P8 (Err branch): the resume call itself, line-end vector concretely empty
pub fn p8<N: Nd>(nd: &mut N) {
    use crate::c09::RecPolicy;
    const F: usize = 6;
    const CAP: usize = 3;
    let (h, n, c1) = (2usize, 6usize, 1usize);
    let file: [u8; F] = any_file::<N, F>(nd);
    nd.assume(file[h] == b'>');
    let f = &file[..n];
    let exp = fa_record(f, h);
    nd.assume(!exp.overflow);
    let st = FaState { start: h, search_pos: if f[CAP - 1] == LF { CAP - 1 } else { CAP }, line: 1, byte: h as u64, state: 2 };
    let mut src = Src::<F>::plain(file, n);
    src.chunk[1] = c1;
    let br = window::<F>(src, CAP, 0);
    let pol = RecPolicy { answer: None, asked: 0, n: 0 };
    let mut v = Vec::with_capacity(8);
    let mut i = 0;
    let mut k = 0;
    while i < FA_MAXL {
        if i < CAP {
            v.push(exp.ends[i]);
        }
        if i < exp.nends && exp.ends[i] < CAP - 1 {
            k += 1;
        }
        i += 1;
    }
    unsafe { v.set_len(k) };
    let mut r = fasta::Reader::verif_from_parts(br, pol, st.start, v, st.line, st.byte, st.search_pos, st.state);
    let res = r.verif_resume_incomplete_search(true);
    if let Ok(found) = res {
        let needed = if exp.complete { exp.next - h + 1 } else { n - h + 1 };
        if needed <= CAP {
            vassert!(found, "X00 found");
            let sp = r.verif_seq_pos();
            vassert!(sp.len() == exp.nends, "X00 number of ends");
        }
    }
    cover!(true, "reached");
    if let Err(e) = &res {
        vassert!(matches!(e, fasta::Error::BufferLimit), "X00 only the refused growth is reported");
        vassert!(r.verif_state() == 4, "X00 terminal");
    }
    std::mem::forget(res);
    std::mem::forget(r);
}

/// P9 (state + buffer assertions): the resume call itself, line-end vector concretely empty
pub fn p9<N: Nd>(nd: &mut N) {
    use crate::c09::RecPolicy;
    const F: usize = 6;
    const CAP: usize = 3;
    let (h, n, c1) = (2usize, 6usize, 1usize);
    let file: [u8; F] = any_file::<N, F>(nd);
    nd.assume(file[h] == b'>');
    let f = &file[..n];
    let exp = fa_record(f, h);
    nd.assume(!exp.overflow);
    let st = FaState { start: h, search_pos: if f[CAP - 1] == LF { CAP - 1 } else { CAP }, line: 1, byte: h as u64, state: 2 };
    let mut src = Src::<F>::plain(file, n);
    src.chunk[1] = c1;
    let br = window::<F>(src, CAP, 0);
    let pol = RecPolicy { answer: None, asked: 0, n: 0 };
    let mut v = Vec::with_capacity(8);
    let mut i = 0;
    let mut k = 0;
    while i < FA_MAXL {
        if i < CAP {
            v.push(exp.ends[i]);
        }
        if i < exp.nends && exp.ends[i] < CAP - 1 {
            k += 1;
        }
        i += 1;
    }
    unsafe { v.set_len(k) };
    let mut r = fasta::Reader::verif_from_parts(br, pol, st.start, v, st.line, st.byte, st.search_pos, st.state);
    let res = r.verif_resume_incomplete_search(true);
    if let Ok(found) = res {
        let needed = if exp.complete { exp.next - h + 1 } else { n - h + 1 };
        if needed <= CAP {
            vassert!(found, "X00 found");
            let sp = r.verif_seq_pos();
            vassert!(sp.len() == exp.nends && ends_match_pub(sp, &exp, h, exp.nends), "X00 ends");
            vassert!(r.policy().n == 0, "X00 policy");
            vassert!(r.verif_buf_reader().capacity() == CAP, "X00 cap");
            vassert!(r.verif_start() == 0, "X00 start");
            if exp.complete {
                vassert!(r.verif_search_pos() + h == exp.next, "X00 next");
                vassert!(r.verif_state() != 4, "X00 not finished");
            } else {
                vassert!(r.verif_state() == 4, "X00 finished");
            }
            let b = r.verif_buf_reader().buffer();
            let want = if n - h < CAP { n - h } else { CAP };
            vassert!(b.len() == want, "X00 len");
            let mut ok = true;
            let mut j = 0;
            while j < CAP {
                if j < b.len() && b[j] != file[h + j] {
                    ok = false;
                }
                j += 1;
            }
            vassert!(ok, "X00 buffer");
        }
    }
    cover!(true, "reached");
    std::mem::forget(res);
    std::mem::forget(r);
}

/// P5 (full assertions): the resume call itself, line-end vector concretely empty
pub fn p5<N: Nd>(nd: &mut N) {
    use crate::c09::RecPolicy;
    const F: usize = 6;
    const CAP: usize = 3;
    let (h, n, c1) = (2usize, 6usize, 1usize);
    let file: [u8; F] = any_file::<N, F>(nd);
    nd.assume(file[h] == b'>');
    let f = &file[..n];
    let exp = fa_record(f, h);
    nd.assume(!exp.overflow);
    let st = FaState { start: h, search_pos: if f[CAP - 1] == LF { CAP - 1 } else { CAP }, line: 1, byte: h as u64, state: 2 };
    let mut src = Src::<F>::plain(file, n);
    src.chunk[1] = c1;
    let br = window::<F>(src, CAP, 0);
    let pol = RecPolicy { answer: None, asked: 0, n: 0 };
    let mut r = fasta::Reader::verif_from_parts(br, pol, st.start, Vec::with_capacity(8), st.line, st.byte, st.search_pos, st.state);
    let res = r.verif_resume_incomplete_search(true);
    if let Ok(found) = res {
        let needed = if exp.complete { exp.next - h + 1 } else { n - h + 1 };
        if needed <= CAP {
            vassert!(found, "X00 found");
            let sp = r.verif_seq_pos();
            vassert!(sp.len() == exp.nends && ends_match_pub(sp, &exp, h, exp.nends), "X00 ends");
            let b = r.verif_buf_reader().buffer();
            let mut ok = true;
            let mut j = 0;
            while j < CAP {
                if j < b.len() && b[j] != file[h + j] {
                    ok = false;
                }
                j += 1;
            }
            vassert!(ok, "X00 buffer");
        }
    }
    cover!(true, "reached");
    std::mem::forget(res);
    std::mem::forget(r);
}


use crate::fqk::*;
use seq_io::fastq;
fn q_resume_at<N: Nd, const F: usize, const CAP: usize, const MODE: usize>(nd: &mut N, file: &[u8; F], make_room: bool, p: usize, n: usize, c1: usize, grow: bool) {
    use crate::c09::RecPolicy;
    let f = &file[..n];
    let g = fq_group(f, p);
    let v = fq_verdict_g(f, p, &g);
    let lfs_in = count_lf(f, p, CAP);
    // the group is not complete inside the first window (that is why the search is resumed)
    nd.assume(lfs_in < 4);
    let st = FqState {
        pos0: p,
        pos1: 0,
        seq: if lfs_in >= 1 { g.starts[1] } else { 0 },
        sep: if lfs_in >= 2 { g.starts[2] } else { 0 },
        qual: if lfs_in >= 3 { g.starts[3] } else { 0 },
        inc: 0,
        line: 1,
        byte: p as u64,
        state: 1,
    };
    let mut src = Src::<F>::plain(*file, n);
    src.chunk[1] = c1;
    let br = window::<F>(src, CAP, 0);
    let pol = RecPolicy { answer: if grow { Some(2 * CAP) } else { None }, asked: 0, n: 0 };
    let mut r = fastq::Reader::verif_from_parts(br, pol, fastq::VerifBufPos::new(st.pos0, st.pos1, st.seq, st.sep, st.qual), st.inc, st.line, st.byte, st.state);
    let res = r.verif_resume_incomplete_search((lfs_in + 1) as u8, make_room);
    let newcap = if grow { 2 * CAP } else { CAP };
    // the window after compaction / growth and a complete refill
    let wend = if p + newcap < n { p + newcap } else { n };
    let complete_in = g.lfs == 4 && g.ends[3] < wend;
    let eof_seen = n - p < newcap;
    let failed = match &res {
        Ok(true) => !(complete_in || eof_seen) || !v.record,
        Ok(false) => !(v.end && eof_seen && !complete_in),
        Err(_) => false,
    };
    if failed {
        nd.note_num("record_start", p as u64);
        nd.note_num("n", n as u64);
        nd.note_num("first_chunk", c1 as u64);
    }
    match res {
        Ok(true) => {
            vassert!(complete_in || eof_seen, "C02 a record is returned only when its four lines are in the buffer or the input ended");
            if MODE & 1 != 0 {
                let rec = r.verif_current_record();
                check_record(&rec, f, &g, &v);
            }
            if MODE & 2 != 0 {
                let b = r.verif_buf_reader().buffer();
                vassert!(b.len() == wend - p, "C03 the refill reads until the buffer is full or the input ends");
            }
            vassert!(r.verif_buf_reader().capacity() == newcap, "C09 the capacity is the one the policy granted");
            if g.lfs < 4 {
                vassert!(r.verif_state() == 3, "C20 after the last record (no terminator) the reader is finished");
            }
            cover!(g.lfs == 4 && c1 == 1, "record completed by a refill in several reads");
            cover!(g.lfs == 3, "last record without terminator after a refill");
        }
        Ok(false) => {
            vassert!(!complete_in, "C02 a complete group in the buffer is not skipped");
            vassert!(eof_seen, "C02 the end of the input is only reported once the source is exhausted");
            vassert!(v.end, "C02 end of input only when no further group (or a blank tail) remains");
            vassert!(r.verif_state() == 3, "C20 once the end of input was reported the reader is finished");
            cover!(true, "blank tail after a refill");
        }
        Err(fastq::Error::BufferLimit) => {
            vassert!(!grow, "C09 no buffer-limit error while the policy grants growth");
            vassert!(!complete_in && !eof_seen, "C02 no buffer-limit error when the group fits after compaction or the input ended");
            vassert!(r.verif_state() == 3, "C14 a refused growth is terminal");
            cover!(true, "growth refused");
        }
        Err(e) => {
            vassert!(complete_in || eof_seen, "C02 a format error is reported only for a group that is completely visible");
            if MODE & 4 != 0 {
                check_error(&e, f, p, 1, &g, &v);
            }
            vassert!(r.verif_state() == 3, "C02 a format error is terminal");
            std::mem::forget(e);
        }
    }
    std::mem::forget(r);
}


pub fn q_compact<N: Nd, const MODE: usize>(nd: &mut N) {
    const F: usize = 7;
    const CAP: usize = 4;
    let file: [u8; F] = any_file::<N, F>(nd);
    let n = nd.usize_in(CAP, F);
    let p = nd.usize_in(1, CAP - 1);
    let c1 = nd.usize_in(0, CAP - 1);
    q_resume_at::<N, F, CAP, MODE>(nd, &file, true, p, n, c1, false);
}
pub fn q0<N: Nd>(nd: &mut N) { q_compact::<N, 0>(nd) }
pub fn q1<N: Nd>(nd: &mut N) { q_compact::<N, 1>(nd) }
pub fn q2<N: Nd>(nd: &mut N) { q_compact::<N, 2>(nd) }
pub fn q4<N: Nd>(nd: &mut N) { q_compact::<N, 4>(nd) }

/// Q5..Q7: the pieces of the FASTQ resume path called one after the other through the hooks
pub fn q_seq<N: Nd, const STEPS: usize>(nd: &mut N) {
    const F: usize = 7;
    const CAP: usize = 4;
    let file: [u8; F] = any_file::<N, F>(nd);
    let n = nd.usize_in(CAP, F);
    let p = nd.usize_in(1, CAP - 1);
    let c1 = nd.usize_in(0, CAP - 1);
    let f = &file[..n];
    let g = fq_group(f, p);
    let lfs_in = count_lf(f, p, CAP);
    nd.assume(lfs_in < 4);
    let mut src = Src::<F>::plain(file, n);
    src.chunk[1] = c1;
    let br = window::<F>(src, CAP, 0);
    let pol = crate::c09::RecPolicy { answer: None, asked: 0, n: 0 };
    let mut r = fastq::Reader::verif_from_parts(br, pol, fastq::VerifBufPos::new(p, 0, if lfs_in >= 1 { g.starts[1] } else { 0 }, if lfs_in >= 2 { g.starts[2] } else { 0 }, if lfs_in >= 3 { g.starts[3] } else { 0 }), 0, 1, p as u64, 1);
    r.verif_make_room((lfs_in + 1) as u8);
    let x = seq_io::verif_fill_buf(r.verif_buf_reader_mut());
    std::mem::forget(x);
    vassert!(r.verif_buf_pos().0 == 0, "X00 moved");
    if STEPS >= 2 {
        let res = r.verif_search_incomplete((lfs_in + 1) as u8);
        if let Ok(inc) = &res {
            vassert!(*inc != Some(0), "X00 inc");
            if STEPS >= 3 {
                if let Some(i) = inc {
                    let e = r.verif_check_end(*i);
                    vassert!(e.is_ok() || e.is_err(), "X00 e");
                    std::mem::forget(e);
                }
            }
        }
        std::mem::forget(res);
    }
    cover!(true, "reached");
    std::mem::forget(r);
}
pub fn q5<N: Nd>(nd: &mut N) { q_seq::<N, 1>(nd) }
pub fn q6<N: Nd>(nd: &mut N) { q_seq::<N, 2>(nd) }
pub fn q7<N: Nd>(nd: &mut N) { q_seq::<N, 3>(nd) }
harnesses! {
    /// @meta props=X00 tier=pilot kind=K timeout=900 mem=16 unwind=9 unwindset="seq_io::fill_buf:5" bounds="pilot"
    pilot_p2 => p2;
    /// @meta props=X00 tier=pilot kind=K timeout=900 mem=16 unwind=9 unwindset="_resume_incomplete_search:2;seq_io::fill_buf:5" bounds="pilot"
    pilot_p3 => p3;
    /// @meta props=X00 tier=pilot kind=K timeout=900 mem=16 unwind=9 unwindset="_resume_incomplete_search:2;seq_io::fill_buf:5" bounds="pilot"
    pilot_p4 => p4;
    /// @meta props=X00 tier=pilot kind=K timeout=900 mem=14 unwind=10 unwindset="seq_io::fill_buf:6" bounds="pilot"
    #[kani::stub(std::string::String::from_utf8_lossy, crate::src::stub_lossy_empty)]
    pilot_q7 => q7;
    /// @meta props=X00 tier=pilot kind=K timeout=900 mem=14 unwind=10 unwindset="seq_io::fill_buf:6" bounds="pilot"
    #[kani::stub(std::string::String::from_utf8_lossy, crate::src::stub_lossy_empty)]
    pilot_q6 => q6;
    /// @meta props=X00 tier=pilot kind=K timeout=900 mem=14 unwind=10 unwindset="seq_io::fill_buf:6" bounds="pilot"
    #[kani::stub(std::string::String::from_utf8_lossy, crate::src::stub_lossy_empty)]
    pilot_q5 => q5;
    /// @meta props=X00 tier=pilot kind=K timeout=900 mem=14 unwind=10 unwindset="_resume_incomplete_search:2;seq_io::fill_buf:6" bounds="pilot"
    #[kani::stub(std::string::String::from_utf8_lossy, crate::src::stub_lossy_empty)]
    pilot_q4 => q4;
    /// @meta props=X00 tier=pilot kind=K timeout=900 mem=14 unwind=10 unwindset="_resume_incomplete_search:2;seq_io::fill_buf:6" bounds="pilot"
    #[kani::stub(std::string::String::from_utf8_lossy, crate::src::stub_lossy_empty)]
    pilot_q2 => q2;
    /// @meta props=X00 tier=pilot kind=K timeout=900 mem=14 unwind=10 unwindset="_resume_incomplete_search:2;seq_io::fill_buf:6" bounds="pilot"
    #[kani::stub(std::string::String::from_utf8_lossy, crate::src::stub_lossy_empty)]
    pilot_q1 => q1;
    /// @meta props=X00 tier=pilot kind=K timeout=900 mem=14 unwind=10 unwindset="_resume_incomplete_search:2;seq_io::fill_buf:6" bounds="pilot"
    #[kani::stub(std::string::String::from_utf8_lossy, crate::src::stub_lossy_empty)]
    pilot_q0 => q0;
    /// @meta props=X00 tier=pilot kind=K timeout=900 mem=16 unwind=9 unwindset="_resume_incomplete_search:2;seq_io::fill_buf:5" bounds="pilot"
    pilot_p15 => p15;
    /// @meta props=X00 tier=pilot kind=K timeout=900 mem=16 unwind=9 unwindset="_resume_incomplete_search:2;seq_io::fill_buf:5" bounds="pilot"
    pilot_p14 => p14;
    /// @meta props=X00 tier=pilot kind=K timeout=900 mem=16 unwind=9 unwindset="_resume_incomplete_search:2;seq_io::fill_buf:5" bounds="pilot"
    pilot_p13 => p13;
    /// @meta props=X00 tier=pilot kind=K timeout=900 mem=16 unwind=9 unwindset="_resume_incomplete_search:2;seq_io::fill_buf:5" bounds="pilot"
    pilot_p12 => p12;
    /// @meta props=X00 tier=pilot kind=K timeout=900 mem=16 unwind=9 unwindset="_resume_incomplete_search:2;seq_io::fill_buf:5" bounds="pilot"
    pilot_p11 => p11;
    /// @meta props=X00 tier=pilot kind=K timeout=900 mem=16 unwind=9 unwindset="_resume_incomplete_search:2;seq_io::fill_buf:5" bounds="pilot"
    pilot_p10 => p10;
    /// @meta props=X00 tier=pilot kind=K timeout=900 mem=16 unwind=9 unwindset="_resume_incomplete_search:2;seq_io::fill_buf:5" bounds="pilot"
    pilot_p9 => p9;
    /// @meta props=X00 tier=pilot kind=K timeout=900 mem=16 unwind=9 unwindset="_resume_incomplete_search:2;seq_io::fill_buf:5" bounds="pilot"
    pilot_p8 => p8;
    /// @meta props=X00 tier=pilot kind=K timeout=900 mem=16 unwind=9 unwindset="_resume_incomplete_search:2;seq_io::fill_buf:5" bounds="pilot"
    pilot_p7 => p7;
    /// @meta props=X00 tier=pilot kind=K timeout=900 mem=16 unwind=9 unwindset="_resume_incomplete_search:2;seq_io::fill_buf:5" bounds="pilot"
    pilot_p6 => p6;
    /// @meta props=X00 tier=pilot kind=K timeout=900 mem=16 unwind=9 unwindset="_resume_incomplete_search:2;seq_io::fill_buf:5" bounds="pilot"
    pilot_p5 => p5;
}
